"""C11 -- framer elapsed/recurred clocks drive timeout and repeat exactly (E1).

Real Builder + real Framer clock code (restartTimer/updateTimer/restartCounter/
updateCounter, the implicit framer needs behind `timeout`, `repeat`,
`if elapsed >= ...`, `if recurred >= ...`).  Three frames a -> b -> c -> a under a
common top frame; a can be force-re-entered (`go a if x >= 1`).  A clock probe
action placed before each frame's transitions records what the framer reports
at the moment conditions are evaluated.
 symbolic: tick period P (integer time units), timeout T and repeat N (through
 indirect goals so they stay symbolic; literal `timeout`/`repeat` verbs on a
 realised grid), the re-entry trigger x of every tick.
 oracle (from the statement, integer arithmetic): at every evaluation
 elapsed == store time - time of the last outline change, recurred == completed
 iterations since then; frame a is left at the first evaluation with
 elapsed >= T, frame b at the first with recurred >= N.
"""
from engine import Ob
from engine import flogen
from engine.flogen import LOG, CLOCKS

PROPERTY = "C11"
ENGINE = "E1"
FUNCTIONS = ["ioflo.base.framing.Framer.restartTimer/updateTimer/updateElapsed/restartCounter/updateCounter/updateRecurred/segue/enter",
             "ioflo.base.building.Builder.buildTimeout/buildRepeat/makeFramerNeed", "ioflo.base.needing.Need (framer elapsed/recurred needs)",
             "ioflo.base.acting.Transiter.action"]
ASSUMPTIONS = [
    "exact-time regime: store time, tick period, timeout are integers (time unit arbitrary); IEEE rounding of decimal periods (0.1 ...) is outside the claim",
    "store stamp assigned directly (store.stamp = k*P); framer driven through its real generator with START then RUN",
    "symbolic: T in [0,8], N in [0,4], x per tick in [0,1], P in [1,4] (one shard per P for the indirect goals); literal verbs `timeout T` / `repeat N` on the grid T in {0,1,2,3,5}, N in {0,1,2,3}",
    "program: top > a,b,c ; a: go a if x >= 1 ; a -> b on elapsed >= T ; b -> c on recurred >= N ; c -> a if x >= 1",
]

START, RUN = 1, 2


def script(tlit, nlit):
    a_t = ("timeout %s" % tlit) if tlit is not None else "go next if elapsed >= tgoal"
    b_t = ("repeat %s" % nlit) if nlit is not None else "go next if recurred >= ngoal"
    return "\n".join([
        "house h", "  framer m be active first a", "    frame top",
        "      do verif record at enter", "      do verif record at renter",
        "    frame a in top", "      do verif record at enter", "      do verif clock at precur",
        "      go a if x >= 1", "      " + a_t,
        "    frame b in top", "      do verif record at enter", "      do verif clock at precur", "      " + b_t,
        "    frame c in top", "      do verif record at enter", "      do verif clock at precur", "      go a if x >= 1",
    ]) + "\n"


def h(sym, ticks, tlit, nlit, Pfix=None):
    text = script(tlit, nlit)
    with flogen.notrace(sym):
        house = flogen.build_text(text)[0]
    store = house.store
    m = house.framers[0]
    P = Pfix if Pfix is not None else sym.int("P", 1, 4)
    T = tlit if tlit is not None else sym.int("T", 0, 8)
    N = nlit if nlit is not None else sym.int("N", 0, 4)
    xs = store.create("x")
    if tlit is None:
        store.create("tgoal").value = T
    if nlit is None:
        store.create("ngoal").value = N
    stamp = 0
    store.stamp = stamp
    xs.value = 0
    del LOG[:]
    del CLOCKS[:]
    st = m.runner.send(START)
    sym.check(st == 1 and m.active.name == "a", "C11/harness/start-failed")
    change_stamp, change_tick, cur = 0, 0, "a"
    for k in range(1, ticks + 1):
        stamp = stamp + P
        store.stamp = stamp
        x = sym.int("x%d" % k, 0, 1)
        xs.value = x
        del LOG[:]
        del CLOCKS[:]
        m.runner.send(RUN)
        exp_el = stamp - change_stamp
        exp_rc = k - change_tick
        sym.check(len(CLOCKS) == 1 and CLOCKS[0][1] == cur, "C11/harness/clock-probe", lambda: "%s %s" % (CLOCKS, cur))
        (_, _, el, rc, els, rcs) = CLOCKS[0]
        sym.check(el == exp_el and els == exp_el, "C11/elapsed-differs-from-store-time-since-outline-change",
                  lambda: "tick %d frame %s elapsed %s share %s expected %s" % (k, cur, el, els, exp_el))
        sym.check(rc == exp_rc and rcs == exp_rc, "C11/recurred-differs-from-completed-iterations",
                  lambda: "tick %d frame %s recurred %s share %s expected %s" % (k, cur, rc, rcs, exp_rc))
        # expected move
        if cur == "a":
            if x >= 1:
                nxt, changed = "a", True
                sym.cover("forced-reentry")
            elif exp_el >= T:
                nxt, changed = "b", True
                sym.cover("timeout-fired")
            else:
                nxt, changed = "a", False
                sym.cover("timeout-pending")
        elif cur == "b":
            if exp_rc >= N:
                nxt, changed = "c", True
                sym.cover("repeat-fired")
            else:
                nxt, changed = "b", False
                sym.cover("repeat-pending")
        else:
            if x >= 1:
                nxt, changed = "a", True
            else:
                nxt, changed = "c", False
        entered = [e[1] for e in LOG if e[2] == "enter"]
        sym.check(m.active.name == nxt, "C11/frame-left-at-wrong-evaluation",
                  lambda: "tick %d in %s: active %s expected %s (elapsed %s T %s recurred %s N %s)" % (k, cur, m.active.name, nxt, exp_el, T, exp_rc, N))
        sym.check((nxt in entered) == changed, "C11/enter-actions-differ", lambda: "tick %d entered %s expected change %s" % (k, entered, changed))
        if changed:
            change_stamp, change_tick = stamp, k
        cur = nxt
    return True


def obligations(tier):
    out = []
    ticks = 4 if tier == "quick" else 6
    for Pfix in (1, 2, 3, 4):
        out.append(Ob("clocks/indirect-goals/P%d" % Pfix, h, dict(ticks=ticks, tlit=None, nlit=None, Pfix=Pfix), budget=900 if tier == "quick" else 2400,
                      covers=["forced-reentry", "timeout-fired", "timeout-pending", "repeat-fired", "repeat-pending"],
                      bounds=dict(ticks=ticks, P=Pfix, T="[0,8]", N="[0,4]")))
    tg = [0, 2, 3] if tier == "quick" else [0, 1, 2, 3, 5]
    ng = [0, 2] if tier == "quick" else [0, 1, 2, 3]
    for t in tg:
        out.append(Ob("clocks/literal-timeout-%d" % t, h, dict(ticks=ticks, tlit=t, nlit=None), budget=600 if tier == "quick" else 1800,
                      covers=["timeout-fired"], bounds=dict(ticks=ticks, P="[1,4]", T=t, N="[0,4]")))
    for nn in ng:
        out.append(Ob("clocks/literal-repeat-%d" % nn, h, dict(ticks=ticks, tlit=None, nlit=nn), budget=600 if tier == "quick" else 1800,
                      covers=["repeat-fired"], bounds=dict(ticks=ticks, P="[1,4]", T="[0,10]", N=nn)))
    return out
