"""C38 -- exchanges time out and retransmit on schedule (E1).

Real `Exchange` / `Exchanger` (and `Exchangent` for construction) over a stack double
that records `transmit`, with a real `Stamper` whose `.stamp` is assigned symbolic
integers (exact-time regime).

Obligations
* ctor/<class>          every combination {absent, given} x {absent, given} of `timeout` and
                        `redoTimout` with symbolic given values: the constructor returns and
                        the exchange carries the given (else the class default) settings.
* sched/<class>/<route> construct at a symbolic stamp, start later, then N `process()` calls
                        separated by symbolic stamp advances (>= 0), optionally sending a new
                        latest message in between.  Oracle from the statement:
                          - failed exactly at the first call at which stamp - start >= timeout (timeout > 0);
                            timeout 0 never fails;
                          - at most one retransmit per call, of the latest message, at a call iff at least one
                            redo interval has passed since the previous retransmission (or the start); call
                            stamps are arbitrary non-decreasing instants (equal consecutive stamps, calls that
                            land strictly after a deadline, steps larger than the interval);
                          - nothing is checked once the exchange is finished.
  routes: `args` (settings through the constructor), `class` (settings through the class
  attributes Timeout / RedoTimeout of a subclass), `defaults` (no settings: 2.0 / 0.5).
"""
from engine import Ob
from engine import symx  # noqa: F401  (imported in the parent so that forked shards share it)
from ioflo.aid.timing import Stamper
from ioflo.aio.proto import exchanging

PROPERTY = "C38"
ENGINE = "E1"
FUNCTIONS = ["ioflo.aio.proto.exchanging.Exchange.__init__", "Exchange.process", "Exchange.send", "Exchange.transmit",
             "Exchange.fail", "Exchange.finish", "Exchanger.start", "Exchangent.__init__",
             "ioflo.aid.timing.StoreTimer.{__init__,restart,getExpired}"]
TECHNIQUE = "E1: symbolic execution of the real Exchange/Exchanger over a recording stack double; stamps, timeout and redo timeout symbolic integers"
LEVEL_TEXT = "bounded model checking: constructor grid {absent,given}^2 x [0,8]^2; schedules of 4/6 process() calls (3/4 with new messages) with symbolic advances in [0,40], settings in [0,64]"
LEVEL_NOTE = "exact-time regime; redo interval counted from the previous retransmission (or the start of the timers)"
ASSUMPTIONS = [
    "stack is a double (name, stamper, transmit recorder); device is a double (name, ha); stamper is a real Stamper whose .stamp is assigned integers",
    "exact-time regime: stamps, timeout and redo timeout are integers (class defaults 2.0 / 0.5 are dyadic floats, exact); "
    "floats are modelled as exact reals (CrossHair RealBasedSymbolicFloat forced)",
    "`round` is shadowed in ioflo.aio.proto.exchanging by a stub returning 0: it is only used inside console log messages, "
    "whose formatting would realise the symbolic stamp",
    "stamps never decrease between calls (store time); advances are symbolic in [0, DMAX]",
    "redo interval: a retransmission is due at a process() call iff stamp - (stamp of the previous retransmission by process(), "
    "else of the start of the timers) >= redo timeout; a catch-up on a fixed grid after a late call is a violation; "
    "a redo timeout of 0 is not checked (statement silent)",
    "on the call at which the exchange fails, whether a retransmit also happened is not checked; nothing is checked after finish",
    "messages are opaque objects compared by identity",
]

CMAX = 8      # constructor obligations: timeout / redo grid [0, CMAX]
VMAX = 64     # schedules: timeout / redo in [0, VMAX] (genuinely symbolic)
DMAX = 40     # stamp advance per step [0, DMAX]


def exact_reals(sym):
    if sym.symbolic:
        from crosshair.tracers import NoTracing
        from crosshair.statespace import context_statespace
        from crosshair.libimpl.builtinslib import ModelingDirector, RealBasedSymbolicFloat
        with NoTracing():
            context_statespace().extra(ModelingDirector).global_representations[float] = RealBasedSymbolicFloat


class Stack:
    name = "stk"

    def __init__(self):
        self.stamper = Stamper()
        self.stamper.stamp = 0
        self.tx = []

    def transmit(self, pkt, ha=None):
        self.tx.append(pkt)

    def message(self, msg, remote=None):
        self.tx.append(msg)


class Dev:
    name = "dev"
    ha = ("127.0.0.1", 7)


class Msg:
    def __init__(self, i):
        self.i = i


CLASSES = dict(Exchange=exchanging.Exchange, Exchanger=exchanging.Exchanger, Exchangent=exchanging.Exchangent)


def quiet_round():
    exchanging.round = lambda x, n=None: 0


def construct(sym, cls, stack, use_to, use_rt, to, rt, tx=None):
    kwa = dict(stack=stack, device=Dev(), tx=tx, uid="x1")
    if use_to:
        kwa["timeout"] = to
    if use_rt:
        kwa["redoTimout"] = rt
    try:
        return cls(**kwa)
    except Exception as e:
        sym.fail("C38/ctor/raised-" + type(e).__name__,
                 "%s(timeout %s, redoTimout %s)" % (cls.__name__, "given" if use_to else "absent", "given" if use_rt else "absent"))


def h_ctor(sym, kind):
    exact_reals(sym)
    quiet_round()
    cls = CLASSES[kind]
    stack = Stack()
    stack.stamper.stamp = sym.int("c0", 0, 20)
    use_to = sym.flag("use_to")
    use_rt = sym.flag("use_rt")
    to = sym.int("to", 0, CMAX)
    rt = sym.int("rt", 0, CMAX)
    ex = construct(sym, cls, stack, use_to, use_rt, to, rt)
    sym.cover("to-%s/rt-%s" % ("given" if use_to else "absent", "given" if use_rt else "absent"))
    eto = to if use_to else cls.Timeout
    ert = rt if use_rt else cls.RedoTimeout
    sym.check(ex.timeout == eto and ex.timer.duration == eto, "C38/ctor/timeout-setting-not-applied")
    sym.check(ex.redoTimeout == ert and ex.redoTimer.duration == ert, "C38/ctor/redo-setting-not-applied")
    sym.check(ex.timer is not ex.redoTimer, "C38/ctor/timers-shared")
    sym.check(not ex.done and not ex.failed, "C38/ctor/flags")
    return True


def h_sched(sym, kind, route, N, resend):
    exact_reals(sym)
    quiet_round()
    base = CLASSES[kind]
    stack = Stack()
    c0 = sym.int("c0", 0, 20)
    stack.stamper.stamp = c0
    m0 = Msg(0)
    if route == "defaults":
        ex = construct(sym, base, stack, False, False, None, None, tx=m0)
        to, rt = base.Timeout, base.RedoTimeout
    else:
        to = sym.int("to", 0, VMAX)
        rt = sym.int("rt", 0, VMAX)
        if route == "args":
            ex = construct(sym, base, stack, True, True, to, rt, tx=m0)
        else:
            cls = type("Sub" + kind, (base,), {})
            cls.Timeout = to            # assigned after creation: type(name, bases, dict) would realise the values
            cls.RedoTimeout = rt
            ex = construct(sym, cls, stack, False, False, None, None, tx=m0)
    now = c0 + sym.int("d_start", 0, DMAX)
    stack.stamper.stamp = now
    if kind == "Exchanger":
        ex.start(tx=m0)
        sym.check(len(stack.tx) == 1 and stack.tx[0] is m0, "C38/start/initial-message-not-sent-once")
        t_start = now          # timers restarted by start()
    else:
        ex.start()
        sym.check(len(stack.tx) == 0, "C38/start/unexpected-transmit")
        t_start = c0           # base Exchange: timers run from construction
    sym.check(not ex.done and not ex.failed, "C38/start/flags")
    latest = m0
    ref = t_start              # stamp of the previous retransmission by process(), else of the start of the timers
    prev_call = None
    for k in range(N):
        if resend and k > 0 and sym.bool("resend%d" % k):
            sym.cover("new-latest-message")
            latest = Msg(k)
            n0 = len(stack.tx)
            ex.send(latest)
            sym.check(len(stack.tx) == n0 + 1 and stack.tx[-1] is latest, "C38/send/not-transmitted-once")
        now = now + sym.int("d%d" % k, 0, DMAX)
        stack.stamper.stamp = now
        n0 = len(stack.tx)
        ex.process()
        sent = len(stack.tx) - n0
        timed_out = (to > 0) and (now - t_start >= to)
        if timed_out:
            sym.cover("timed-out")
            sym.check(ex.failed, "C38/process/timeout-elapsed-not-failed")
            sym.check(ex.done, "C38/process/failed-not-finished")
            return True      # finished: nothing more is claimed
        if to == 0:
            sym.cover("timeout-zero")
            sym.check(not ex.failed, "C38/process/timeout-zero-expired")
        sym.check(not ex.failed, "C38/process/failed-before-timeout")
        sym.check(not ex.done, "C38/process/finished-by-process")
        sym.check(sent <= 1, "C38/process/more-than-one-retransmit-per-call")
        if sent:
            sym.check(stack.tx[-1] is latest, "C38/process/retransmit-not-latest-message")
        if rt > 0:
            due = (now - ref >= rt)
            if sent:
                sym.cover("retransmit")
                sym.check(due, "C38/process/retransmit-before-redo-interval")
                if now - ref > rt:
                    sym.cover("late-retransmit")
                ref = now
            else:
                sym.check(not due, "C38/process/no-retransmit-after-redo-interval")
                if k > 0 and now == prev_call:
                    sym.cover("same-stamp-call")
        prev_call = now
    sym.cover("done")
    return True


N_PLAIN = dict(quick=4, thorough=6)
N_RESEND = dict(quick=3, thorough=4)


def obligations(tier):
    quick = tier == "quick"
    out = []
    for kind in ("Exchange", "Exchanger", "Exchangent"):
        out.append(Ob("ctor/" + kind, h_ctor, dict(kind=kind), hang_s=240, budget=120,
                      covers=["to-%s/rt-%s" % (a, b) for a in ("absent", "given") for b in ("absent", "given")],
                      bounds=dict(timeout=[0, CMAX], redoTimout=[0, CMAX], combos="absent/given x absent/given")))
    for kind in ("Exchange", "Exchanger"):
        for route in ("args", "class", "defaults"):
            covers = ["done", "retransmit", "late-retransmit", "same-stamp-call", "timed-out"]
            if route != "defaults":
                covers.append("timeout-zero")
            for resend in (False, True):
                n = (N_RESEND if resend else N_PLAIN)[tier]
                name = "sched/%s/%s%s" % (kind, route, "/resend" if resend else "")
                out.append(Ob(name, h_sched, dict(kind=kind, route=route, N=n, resend=resend),
                              hang_s=240, budget=120 if quick else 1200,
                              covers=covers + (["new-latest-message"] if resend else []),
                              bounds=dict(timeout=[0, VMAX], redo=[0, VMAX], process_calls=n, advance=[0, DMAX],
                                          construct_stamp=[0, 20], start_delay=[0, DMAX], new_message_between_calls=resend)))
    return out
