"""C46 -- PID controller output and integrator stay within their limits (engine E2, FP + havoc).

`ControllerPid.action` (with `DoerLapse.action/updateLapse` reached through super()) is
translated from source on every run.  Attribute chains are variables: `self.parm.data.ovmax`,
`self.input.value`, `self.store.stamp` ... are symbolic FP(11,53) inputs (NaN and +-inf
allowed), `self.parm.data.calcRate` a symbolic bool, `self.es.value = ...` a recorded output.

Abstraction (DESIGN C46; the exact term is `unknown` for z3 after 120 s): every float `*`, `/`
and `+` is an UNINTERPRETED FUNCTION of its operands (hmul, hdiv, hadd), `navigating.wrap2` and
`blending.blend0` are uninterpreted functions of their arguments.  Real IEEE arithmetic and the
real wrap2/blend0 are particular such functions, so an `unsat` covers them (sound
over-approximation).  Float `-`, `abs`, `min`, `max`, `<=`, `>` and truthiness are encoded
exactly as CPython evaluates them (incl. NaN).

One inductive step from an arbitrary controller state (prior error, error sum, prior set
point, stamps: all symbolic):
  limits   limits not NaN and ordered, prior output / error sum within them  ==>  output and
           error sum within them afterwards (whether or not the controller evaluated)
  error    evaluated  ==>  the stored error is wrap2(+-(input - set point), parm.wrap), the set
           point being the new one, or (only if it did not change by more than drsp) the prior one
  reset    evaluated and |rsp - prsp| > drsp  ==>  error sum and output do not depend on the
           prior error sum (two runs differing only in it agree)
A counterexample of an abstract query is only a candidate: it is run on the REAL class (model
inputs first, then a seeded search over special float values); only a reproducing input is
reported, otherwise the obligation is inconclusive.
"""
import ast

import z3

from engine import Ob
from engine import astsmt as A
from ioflo.aid import navigating, blending
from ioflo.base import storing
from ioflo.trim.interior.plain import controlling

PROPERTY = "C46"
ENGINE = "E2"
TECHNIQUE = "source->SMT translation over FP(11,53), arithmetic and callees as uninterpreted functions"
LEVEL_TEXT = "source->SMT over FP(11,53), one inductive step of ControllerPid.action from an arbitrary controller state; float *, /, + and wrap2 / blend0 are uninterpreted functions (sound over-approximation); three queries (limits, error, reset) unsat"
LEVEL_NOTE = "trusted: astsmt translator incl. attribute-chain variables and CPython min/max/abs/comparison semantics on NaN; abstract counterexamples count only if they reproduce on the real class; z3 5.1 (qffp tactic with default-solver fallback)"
FUNCTIONS = ["ioflo.trim.interior.plain.controlling.ControllerPid.action", "ioflo.base.doing.DoerLapse.action",
             "ioflo.base.doing.DoerLapse.updateLapse"]
ASSUMPTIONS = [
    "float *, / and + are uninterpreted functions of their operands; navigating.wrap2 and blending.blend0 are "
    "uninterpreted functions of their arguments (over-approximation of IEEE arithmetic and of the real callees)",
    "float -, abs, min, max, comparisons and truthiness are exact CPython/IEEE semantics incl. NaN and infinities",
    "all share values, parameters and both stamps are doubles (NaN / +-inf allowed); parm.calcRate is a bool; "
    "the TypeError branch of updateLapse (non-numeric stamps) is not modelled",
    "limits: ovmin, ovmax, esmin, esmax are not NaN and ovmin <= ovmax, esmin <= esmax (infinite limits allowed)",
    "inductive step: prior output and prior error sum lie within the limits (true initially when 0.0 lies within them, "
    "as for the four registered controllers); everything else about the prior state is arbitrary",
    "the sign convention of the error and which of the (nearly equal) set points is used below the drsp threshold are "
    "not in the statement: both are accepted",
    "console output is executed concretely (verbosity 0)",
]

KEY_LIM = "C46/limits/output-or-error-sum-outside-limits"
KEY_ERR = "C46/error/not-the-wrapped-difference"
KEY_RST = "C46/reset/error-sum-survives-set-point-change"

FPS = ["stamp_last", "stamp", "input", "rate", "rsp", "prsp", "pe", "er0", "es", "out0", "elapsed0", "lapse0",
       "wrap", "drsp", "ger", "gff", "gpe", "gde", "gie", "esmax", "esmin", "ovmax", "ovmin"]
PATHS = {
    "self.stamp": "stamp_last", "self.store.stamp": "stamp", "self.lapse": "lapse0",
    "self.elapsed.value": "elapsed0", "self.input.value": "input", "self.rate.value": "rate", "self.rsp.value": "rsp",
    "self.prsp.value": "prsp", "self.e.value": "pe", "self.er.value": "er0", "self.es.value": "es",
    "self.output.value": "out0",
}
for _n in ("wrap", "drsp", "ger", "gff", "gpe", "gde", "gie", "esmax", "esmin", "ovmax", "ovmin"):
    PATHS["self.parm.data." + _n] = _n
OBJS = {"self.store", "self.elapsed", "self.input", "self.rate", "self.rsp", "self.prsp", "self.e", "self.er", "self.es",
        "self.output", "self.parm", "self.parm.data"}

F = A.FP64
HADD = z3.Function("hadd", F, F, F)
HMUL = z3.Function("hmul", F, F, F)
HDIV = z3.Function("hdiv", F, F, F)
HWRAP2 = z3.Function("hwrap2", F, F, F)
HBLEND0 = z3.Function("hblend0", F, F, F, F)


def fpv(x):
    return x if A.is_sym(x) else A.fp_val(x)


class Run:
    """one translation of action() on a symbolic controller"""
    def __init__(self, sess, suffix="", share=None):
        self.v = dict(share or {})
        for n in FPS:
            self.v.setdefault(n, z3.FP(n + suffix, F))
        self.v.setdefault("calcRate", z3.Bool("calcRate" + suffix))
        self.wrap2_calls = []
        v = self.v

        def factory(path):
            if path == "self.name":
                return "pid"
            if path == "self.parm.data.calcRate":
                return v["calcRate"]
            if path in PATHS:
                return v[PATHS[path]]
            if path in OBJS:
                return A.SymObj(path, factory)
            raise A.Unsupported("unmodelled attribute %s" % path)

        def wrap2(I, args, kw):
            names = ["angle", "wrap"]
            a = dict(zip(names, args))
            a.update(kw)
            if set(a) != set(names):
                raise A.Unsupported("wrap2 call form")
            r = HWRAP2(fpv(a["angle"]), fpv(a["wrap"]))
            self.wrap2_calls.append((I.cur, fpv(a["angle"]), fpv(a["wrap"]), r))
            return r

        def blend0(I, args, kw):
            names = ["d", "u", "s"]
            a = dict(zip(names, args))
            a.update(kw)
            if set(a) != set(names):
                raise A.Unsupported("blend0 call form")
            return HBLEND0(fpv(a["d"]), fpv(a["u"]), fpv(a["s"]))

        def hook(I, op, a, b, node):
            t = type(op)
            if t not in (ast.Add, ast.Mult, ast.Div):
                return None
            if not ((A.is_sym(a) and z3.is_fp(a)) or (A.is_sym(b) and z3.is_fp(b))):
                return None
            if (A.is_sym(a) and not z3.is_fp(a)) or (A.is_sym(b) and not z3.is_fp(b)):
                raise A.Unsupported("float arithmetic with a non-float symbolic operand")
            a, b = fpv(a), fpv(b)
            if t is ast.Div:
                I.add_side("float division by zero (ZeroDivisionError)", z3.Not(z3.fpIsZero(b)))
                return HDIV(a, b)
            return (HADD if t is ast.Add else HMUL)(a, b)

        self.I = sess.interp(num="fp", intrinsics={navigating.wrap2: wrap2, blending.blend0: blend0}, binop_hook=hook)
        self.obj = A.SymObj("self", factory, cls=controlling.ControllerPid)
        self.ret = self.I.call(controlling.ControllerPid.action, [self.obj])
        sess.absorb(self.I)
        if self.ret is not None:
            raise A.Unsupported("action() returns a value")

    def out(self, share):
        return self.obj.get(share).get("value")

    @property
    def lapse(self):
        return self.obj.get("lapse")


def not_nan(x):
    return z3.Not(z3.fpIsNaN(x))


def limits_ok(v):
    return [not_nan(v[n]) for n in ("ovmin", "ovmax", "esmin", "esmax")] + \
           [z3.fpLEQ(v["ovmin"], v["ovmax"]), z3.fpLEQ(v["esmin"], v["esmax"])]


def within(x, lo, hi):
    return z3.And(z3.fpLEQ(lo, x), z3.fpLEQ(x, hi))


def changed(v):
    return z3.fpGT(z3.fpAbs(z3.fpSub(A.RNE, v["rsp"], v["prsp"])), v["drsp"])


# ----------------------------------------------------------------------------- the real class

_REAL = {}


def real_controller():
    if "c" not in _REAL:
        store = storing.Store(stamp=0.0)
        c = controlling.ControllerPid(name="pidC46", store=store)
        c._prepio(group="c46.pid", output="c46.out", input="c46.input", rate="c46.rate", rsp="c46.rsp",
                  parms=dict(wrap=0.0, drsp=0.01, calcRate=True, ger=1.0, gff=0.0, gpe=0.0, gde=0.0, gie=0.0,
                             esmax=0.0, esmin=0.0, ovmax=0.0, ovmin=0.0))
        _REAL["c"] = c
    return _REAL["c"]


def real_run(v):
    """run the real ControllerPid.action from the state/inputs in dict v; returns the post-state"""
    c = real_controller()
    c.stamp = v["stamp_last"]
    c.store.stamp = v["stamp"]
    c.lapse = v["lapse0"]
    c.elapsed.value = v["elapsed0"]
    c.input.value, c.rate.value, c.rsp.value, c.prsp.value = v["input"], v["rate"], v["rsp"], v["prsp"]
    c.e.value, c.er.value, c.es.value, c.output.value = v["pe"], v["er0"], v["es"], v["out0"]
    for n in ("wrap", "drsp", "ger", "gff", "gpe", "gde", "gie", "esmax", "esmin", "ovmax", "ovmin"):
        setattr(c.parm.data, n, v[n])
    c.parm.data.calcRate = bool(v["calcRate"])
    c.action()
    return dict(lapse=c.lapse, e=c.e.value, er=c.er.value, es=c.es.value, out=c.output.value, prsp=c.prsp.value)


def same(a, b):
    return (a != a and b != b) or a == b


def concrete_check(kind, v):
    """None if the property holds on the real class for inputs v (or v is outside the assumptions), else a description"""
    lim = [v[n] for n in ("ovmin", "ovmax", "esmin", "esmax")]
    if kind == "limits":
        if any(x != x for x in lim) or not (v["ovmin"] <= v["ovmax"] and v["esmin"] <= v["esmax"]):
            return None
        if not (v["ovmin"] <= v["out0"] <= v["ovmax"] and v["esmin"] <= v["es"] <= v["esmax"]):
            return None
        r = real_run(v)
        bad = []
        if not (v["ovmin"] <= r["out"] <= v["ovmax"]):
            bad.append("output %r not in [%r, %r]" % (r["out"], v["ovmin"], v["ovmax"]))
        if not (v["esmin"] <= r["es"] <= v["esmax"]):
            bad.append("error sum %r not in [%r, %r]" % (r["es"], v["esmin"], v["esmax"]))
        return ("after action() with lapse %r: " % r["lapse"] + "; ".join(bad)) if bad else None
    r = real_run(v)
    evaluated = not (r["lapse"] <= 0.0)
    if not evaluated:
        return None
    chg = abs(v["rsp"] - v["prsp"]) > v["drsp"]
    if kind == "error":
        sps = [v["rsp"]] + ([] if chg else [v["prsp"]])
        cands = []
        for sp in sps:
            for x in (v["input"] - sp, sp - v["input"]):
                try:
                    cands.append(navigating.wrap2(angle=x, wrap=v["wrap"]))
                except Exception:
                    pass
        if any(same(r["e"], c) for c in cands):
            return None
        return "error %r is none of wrap2(+-(input - set point), wrap=%r) = %r (input %r, rsp %r, prsp %r)" % (
            r["e"], v["wrap"], cands, v["input"], v["rsp"], v["prsp"])
    if kind == "reset":
        if not chg:
            return None
        v2 = dict(v, es=v["es_b"])
        r2 = real_run(v2)
        if same(r["es"], r2["es"]) and same(r["out"], r2["out"]):
            return None
        return "set point changed %r -> %r (> drsp %r) but the result depends on the prior error sum: es %r -> (%r, out %r), es %r -> (%r, out %r)" % (
            v["prsp"], v["rsp"], v["drsp"], v["es"], r["es"], r["out"], v2["es"], r2["es"], r2["out"])
    raise ValueError(kind)


KEYS = dict(limits=KEY_LIM, error=KEY_ERR, reset=KEY_RST)


def replay(vals, params):
    v = A.unjson(vals)
    kind = v.pop("kind")
    try:
        bad = concrete_check(kind, v)
    except Exception as e:
        return ("fail", "C46/%s/raises" % kind, "action() raised %r on %r" % (e, v))
    if bad:
        return ("fail", KEYS[kind], bad + " | inputs: " + ", ".join("%s=%r" % kv for kv in sorted(v.items())))
    return ("pass", KEYS[kind], "")


POOL = [0.0, -0.0, 1.0, -1.0, 0.5, 2.0, -3.0, 10.0, 0.01, 100.0, -100.0, 180.0, 360.0, 1e-3, 1e10, -1e10, 1e300, -1e300,
        1.7976931348623157e308, -1.7976931348623157e308, 5e-324, float("inf"), float("-inf"), float("nan")]


def concretizer(sess, kind, variables, salt):
    names = list(variables)

    def conc(m):
        base = {}
        for n in names:
            x = A.model_value(m, variables[n])
            base[n] = x
        r = A.rng(sess.params, salt)
        trials = [dict(base)]
        for i in range(4000):
            t = dict(base) if i % 2 else {}
            for n in names:
                if n not in t or r.random() < 0.25:
                    t[n] = (r.random() < 0.5) if n == "calcRate" else r.choice(POOL)
            # make the candidate satisfy the assumptions of the query more often
            if t["ovmin"] == t["ovmin"] and t["ovmax"] == t["ovmax"] and t["ovmin"] > t["ovmax"]:
                t["ovmin"], t["ovmax"] = t["ovmax"], t["ovmin"]
            if t["esmin"] == t["esmin"] and t["esmax"] == t["esmax"] and t["esmin"] > t["esmax"]:
                t["esmin"], t["esmax"] = t["esmax"], t["esmin"]
            if kind == "limits":
                if i % 3:
                    t["out0"] = r.choice([t["ovmin"], t["ovmax"]])
                    t["es"] = r.choice([t["esmin"], t["esmax"]])
            if i % 4:
                t["stamp_last"], t["stamp"] = 0.0, r.choice([0.125, 1.0, 0.5, 1e-3, 1e6])
            trials.append(t)
        for t in trials:
            try:
                bad = concrete_check(kind, t)
            except Exception as e:
                bad = "action() raised %r" % (e,)
            if bad:
                return dict(t, kind=kind), bad
        return None
    return conc


# ----------------------------------------------------------------------------- obligations

def validate(sess, run):
    """translator validation is only meaningful where no uninterpreted function is involved: the
    lapse computed by updateLapse and the early-return / reset decisions"""
    r = A.rng(sess.params, 46)
    v = run.v
    cases = []
    for _ in range(40):
        cases.append((r.choice(POOL), r.choice(POOL)))
    sess.validate("updateLapse", [A.Path([], run.lapse, run.I)], [v["stamp_last"], v["stamp"]], cases,
                  lambda a, b: real_run(dict({n: 0.0 for n in FPS}, calcRate=True, stamp_last=a, stamp=b))["lapse"])
    cases = [(0.0, r.choice([0.0, 1.0, 0.5, -1.0, float("nan")]), r.choice(POOL), r.choice(POOL), r.choice(POOL)) for _ in range(60)]

    def real_prsp(t0, t1, rsp, prsp, drsp):
        return real_run(dict({n: 0.0 for n in FPS}, calcRate=True, stamp_last=t0, stamp=t1, rsp=rsp, prsp=prsp, drsp=drsp))["prsp"]
    sess.validate("set point change detection", [A.Path([], run.out("prsp"), run.I)],
                  [v["stamp_last"], v["stamp"], v["rsp"], v["prsp"], v["drsp"]], cases, real_prsp)


def ob_limits(sess, params):
    run = Run(sess)
    v = run.v
    validate(sess, run)
    es1, out1 = run.out("es"), run.out("output")
    pre = limits_ok(v) + [within(v["out0"], v["ovmin"], v["ovmax"]), within(v["es"], v["esmin"], v["esmax"])]
    claim = z3.And(within(out1, v["ovmin"], v["ovmax"]), within(es1, v["esmin"], v["esmax"]))
    wrong = z3.And(within(out1, v["ovmin"], v["ovmax"]), z3.fpLT(v["esmin"], es1))
    sess.prove(KEY_LIM, claim, assume=pre, defs=run.I.defs, side=run.I.side, wrong=wrong,
               vals=lambda m: dict({n: A.model_value(m, x) for n, x in v.items()}, kind="limits"),
               concretize=concretizer(sess, "limits", v, 1), what="limits")
    sess.res["extra"]["wrap2_calls"] = len(run.wrap2_calls)


def ob_error(sess, params):
    run = Run(sess)
    v = run.v
    evaluated = z3.Not(z3.fpLEQ(run.lapse, A.fp_val(0.0)))
    e1 = run.out("e")
    chg = changed(v)
    alts = []
    for sp, cond in ((v["rsp"], z3.BoolVal(True)), (v["prsp"], z3.Not(chg))):
        for x in (z3.fpSub(A.RNE, v["input"], sp), z3.fpSub(A.RNE, sp, v["input"])):
            alts.append(z3.And(cond, e1 == HWRAP2(x, v["wrap"])))
    claim = z3.Implies(evaluated, z3.Or(alts))
    wrong = z3.Implies(evaluated, e1 == HWRAP2(z3.fpSub(A.RNE, v["input"], v["prsp"]), v["wrap"]))
    sess.prove(KEY_ERR, claim, defs=run.I.defs, side=run.I.side, wrong=wrong,
               vals=lambda m: dict({n: A.model_value(m, x) for n, x in v.items()}, kind="error"),
               concretize=concretizer(sess, "error", v, 2), what="error")


def ob_reset(sess, params):
    run1 = Run(sess)
    v = run1.v
    esb = z3.FP("es_b", F)
    run2 = Run(sess, share=dict(v, es=esb))
    evaluated = z3.Not(z3.fpLEQ(run1.lapse, A.fp_val(0.0)))
    pre = [evaluated, changed(v)]
    claim = z3.And(run1.out("es") == run2.out("es"), run1.out("output") == run2.out("output"))
    wrong = z3.And(run1.out("es") == run2.out("es"), run1.out("es") == v["es"])
    allv = dict(v, es_b=esb)
    sess.prove(KEY_RST, claim, assume=pre, defs=run1.I.defs + run2.I.defs, side=run1.I.side + run2.I.side, wrong=wrong,
               vals=lambda m: dict({n: A.model_value(m, x) for n, x in allv.items()}, kind="reset"),
               concretize=concretizer(sess, "reset", allv, 3), what="reset")
    # without the set point change the prior error sum must matter in general (twin: the claim above is not vacuous)
    r, m, _ = sess.check(evaluated, z3.Not(changed(v)), z3.Not(run1.out("es") == run2.out("es")))
    sess.res["extra"]["twin_no_reset_depends_on_prior_sum"] = r


def obligations(tier):
    obs = []
    for name, fn in (("limits", ob_limits), ("error", ob_error), ("reset", ob_reset)):
        obs.append(Ob(name, A.run_obligation(fn, "tactic:qffp", 30000, alts=[(None, 240000)]), params=dict(xcheck=(tier == "thorough"), xcheck_max=1), kind="e2", replay=replay, budget=900,
                      bounds=dict(step="one action() from an arbitrary state", values="all doubles incl. NaN, +-inf",
                                  arithmetic="uninterpreted *, /, +, wrap2, blend0")))
    return obs
