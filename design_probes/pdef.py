import collections.abc, errno, socket, traceback
from collections import deque
from ioflo.aid import consoling
console = consoling.getConsole(verbosity=0)
def t(name, fn):
    try: print(name, "->", fn())
    except BaseException as e: print(name, "-> EXC", type(e).__name__, str(e)[:80])

# C33 mixed EOL
from ioflo.aio.http import httping
def sse(chunks):
    es = httping.EventSource(raw=bytearray())
    for c in chunks:
        es.raw.extend(c); es.parse()
    return [dict(e) for e in es.events]
t("C33 LF then CRLF", lambda: sse([b"data: a\ndata: b\r\n\r\n"]))
t("C33 CR|LF split", lambda: sse([b"data: a\r", b"\ndata: b\r\n\r\n"]))
t("C33 all LF ref", lambda: sse([b"data: a\ndata: b\n\n"]))

# C29 header without space
from ioflo.aio.http import serving
class Inc: timeout = 1.0
def req(b):
    r = serving.Requestant(msg=bytearray(b), incomer=Inc()); r.parse(); return (r.ended, r.errored, dict(r.headers or {}))
t("C29 Name:value", lambda: req(b"GET / HTTP/1.1\r\nHost:x\r\n\r\n"))
t("C32 bad chunk size", lambda: req(b"POST / HTTP/1.1\r\nTransfer-Encoding: chunked\r\n\r\nzz\r\nab\r\n0\r\n\r\n"))

# C26 repeated peer
from ioflo.aio.tcp import serving as tcps
class CS:
    def __init__(s, peer): s.peer = peer; s.closed = False; s.shut = False
    def getpeername(s): return s.peer
    def getsockname(s): return ("127.0.0.1", 80)
    def setblocking(s, x): pass
    def shutdown(s, how): s.shut = True
    def close(s): s.closed = True
class SS:
    def __init__(s): s.q = []
    def accept(s):
        if not s.q:
            e = socket.error(errno.EAGAIN, "x"); raise e
        return s.q.pop(0)
def c26():
    sv = tcps.Server(ha=("127.0.0.1", 80)); sv.ss = SS(); sv.opened = True
    a = ("10.0.0.1", 5000)
    sv.ss.q.append((CS(a), a)); sv.serviceConnects()
    sv.ss.q.append((CS(a), a)); sv.serviceConnects()
    return len(sv.ixes)
t("C26 repeat peer", c26)

# C25 GramStack receive transient error
from ioflo.aio.proto import stacking
class H:
    opened = True; ha = ("127.0.0.1", 1)
    def reopen(s): return True
    def receive(s): raise socket.error(errno.ECONNREFUSED, "refused")
def c25():
    st = stacking.GramStack(name="s", handler=H(), ha=("127.0.0.1", 1))
    return st._serviceOneReceived()
t("C25 gram rx ECONNREFUSED", c25)

# C28 TLS refresh: static look
import inspect
src = inspect.getsource(tcps.IncomerTls.receive) + inspect.getsource(tcps.IncomerTls.send)
print("C28 IncomerTls refresh calls:", src.count("refresh"), " Incomer:", (inspect.getsource(tcps.Incomer.receive) + inspect.getsource(tcps.Incomer.send)).count("refresh"))

# C45 trusted tie
from ioflo.base import arbiting, storing, housing
def c45():
    housing.House.Clear(); housing.ClearRegistries()
    store = storing.Store(name="s", stamp=0.0)
    from ioflo.aid.odicting import odict
    arb = arbiting.ArbiterTrusted(name="arb", store=store, group="g", output="out",
                                  inputs=odict(a=("in.a", True, 1), b=("in.b", True, 2)))
    store.fetch("in.a").update(value=1); store.fetch("in.a").truth = 0.9
    store.fetch("in.b").update(value=2); store.fetch("in.b").truth = 0.9
    store.fetch("g.default").truth = 0.1
    arb.update()
    return store.fetch("out").value
t("C45 trusted tie", c45)
