import sys, time, os, tempfile
from symx import *
from ioflo.aid import consoling
from ioflo.base import skedding, building, housing, storing
console = consoling.getConsole(verbosity=consoling.Console.Wordage.mute) if hasattr(consoling.Console.Wordage,'mute') else consoling.getConsole()
print(consoling.Console.Wordage, console._verbosity)
SCRIPT = """
house h1
  framer f1 be active first a
    frame top
      go done if elapsed >= 5.0
      frame a in top
        put 0 into x
        go next if y >= 3
      frame b in top
        inc x with 1
        go a if y < 2
        go next if x >= 4
      frame c in top
        go next
    frame done
      bid stop me
"""
d = tempfile.mkdtemp()
fn = os.path.join(d, "p.flo")
open(fn, "w").write(SCRIPT)

def build():
    b = building.Builder(fileName=fn)
    assert b.build()
    return b.houses

t=time.time()
for i in range(20): hs = build()
print("untraced build", (time.time()-t)/20)

def h(sym):
    with NoTracing():
        houses = build()
    house = houses[0]
    sk = skedding.Skedder(name="s", period=1.0, houses=houses)
    store = house.store
    y = store.create("y")
    # drive ticks manually like Skedder.run but with symbolic inputs per tick
    for tasker in house.taskables:
        sk.addReadyTask(tasker)
    store.changeStamp(0.0)
    f1 = house.framers[0]
    trace = []
    stamp = 0.0
    for t in range(4):
        y.update(value=sym.int("y%d" % t, -10, 10))
        status = f1.runner.send(f1.desire)
        trace.append(f1.active.name if f1.active else None)
        stamp += 1.0
        store.changeStamp(stamp)
    return True

r = explore(h, budget_s=120)
print(r)
