import sys, errno, socket, time
from symx import *
from crosshair.core import realize
from ioflo.aid import consoling
from ioflo.base import storing
from ioflo.aio.tcp import clienting as tcpc, serving as tcps
from ioflo.aio.http import clienting, serving

class Pipe:
    def __init__(self): self.buf = bytearray(); self.closed = False
class Conn:
    """one end of an in-memory stream pair"""
    def __init__(self, rx, tx, me, peer, lim):
        self.rx, self.tx, self.me, self.peer, self.lim = rx, tx, me, peer, lim
    def setblocking(self, x): pass
    def getsockname(self): return self.me
    def getpeername(self): return self.peer
    def shutdown(self, how): pass
    def close(self): self.tx.closed = True
    def send(self, data):
        n = min(len(data), self.lim())
        if n == 0 and len(data): raise socket.error(errno.EAGAIN, "again")
        self.tx.buf.extend(data[:n]); return n
    def recv(self, bs):
        if not self.rx.buf:
            if self.rx.closed: return b""
            raise socket.error(errno.EAGAIN, "again")
        n = min(len(self.rx.buf), bs, max(1, self.lim()))
        d = bytes(self.rx.buf[:n]); del self.rx.buf[:n]; return d
class Listen:
    def __init__(self): self.pending = []
    def accept(self):
        if not self.pending:
            e = socket.error(errno.EAGAIN, "again"); raise e
        return self.pending.pop(0)
    def shutdown(self, how): pass
    def close(self): pass

def app(environ, start_response):
    path = environ['PATH_INFO']
    body = ("echo " + path).encode()
    if path.endswith("s"):      # streamed, no length
        start_response('200 OK', [('Content-Type', 'text/plain')])
        return [body[:3], body[3:]]
    start_response('200 OK', [('Content-Type', 'text/plain'), ('Content-Length', str(len(body)))])
    return [body]

STEPS = int(sys.argv[2]) if len(sys.argv) > 2 else 6
def h(sym):
    lims = []
    def lim():
        v = realize(sym.int("lim%d" % len(lims), 0, 2)); lims.append(v)
        return [0, 7, 10000][v]
    with NoTracing():
        store = storing.Store(stamp=0.0)
        c2s, s2c = Pipe(), Pipe()
        ca, sa = ("127.0.0.1", 50001), ("127.0.0.1", 8080)
        valet = serving.Valet(store=store, app=app, port=8080, timeout=0.0)
        valet.servant.ss = Listen(); valet.servant.opened = True
        valet.servant.ss.pending.append((Conn(c2s, s2c, sa, ca, lambda: 10000), ca))
        patron = clienting.Patron(store=store, hostname="127.0.0.1", port=8080, reconnectable=False)
        patron.connector.cs = Conn(s2c, c2s, ca, sa, lambda: 10000)
        patron.connector._accepted = True; patron.connector.opened = True
        patron.request(method="GET", path="/a")
        patron.request(method="GET", path="/bs")
        patron.request(method="GET", path="/c")
    # schedule
    limc = [10000]
    patron.connector.cs.lim = lambda: limc[0]
    for k in range(STEPS):
        who = realize(sym.int("who%d" % k, 0, 1))
        limc[0] = [3, 10000][realize(sym.int("lim%d" % k, 0, 1))]
        with NoTracing():
            if who == 0: patron.serviceAll()
            else: valet.serviceAll()
    with NoTracing():
        for k in range(12):
            limc[0] = 10000
            patron.serviceAll(); valet.serviceAll()
        got = [(r['request']['path'], bytes(r['body'])) for r in patron.responses]
    return got == [("/a", b"echo /a"), ("/bs", b"echo /bs"), ("/c", b"echo /c")]
print(explore(h, budget_s=float(sys.argv[1]) if len(sys.argv) > 1 else 60))
