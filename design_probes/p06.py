import collections.abc, sys, os, tempfile
from ioflo.aid import consoling
console = consoling.getConsole(verbosity=0)
from ioflo.base import skedding, building, housing, storing, doing
from ioflo.base.globaling import *
LOG = []
@doing.doify('VerifRecord')
def verifRecord(self, **kwa):
    LOG.append((self._act.frame.framer.name, self._act.frame.name, self._act.context))
SCRIPT = """house h
  framer m be active first c
    frame t
      do verif record at enter
      do verif record at exit
      go x if go >= 1
      frame a in t
        do verif record at enter
        do verif record at exit
        aux ax if cond >= 1
        frame c in a
          do verif record at enter
          do verif record at exit
          do verif record at recur
    frame x
      do verif record at enter
      do verif record at exit
  framer ax be aux first a1
    frame a1
      do verif record at enter
      do verif record at exit
      do verif record at recur
      go a2 if fin >= 1
    frame a2
      done me
"""
d = tempfile.mkdtemp(); fn = os.path.join(d, "c.flo"); open(fn, "w").write(SCRIPT)
b = building.Builder(fileName=fn); assert b.build()
house = b.houses[0]; store = house.store
f = [x for x in house.framers if x.name == 'm'][0]
store.changeStamp(0.0)
def tick(ctl, n):
    del LOG[:]; st = f.runner.send(ctl); store.changeStamp(float(n))
    print(n, StatusNames[st], [x.name for x in f.actives], LOG)
tick(START, 1)
store.create("cond").update(value=1); tick(RUN, 2)
store.create("go").update(value=1); tick(RUN, 3)
tick(RUN, 4)
