"""probe driver: run harness(sym) over all paths with CrossHair's engine"""
import sys, time, json
from crosshair.core import Patched, proxy_for_type, deep_realize, realize
import crosshair.core_and_libs
from crosshair.tracers import NoTracing, ResumedTracing, COMPOSITE_TRACER
from crosshair.statespace import (StateSpace, StateSpaceContext, RootNode, CallAnalysis,
    VerificationStatus, context_statespace)
from crosshair.util import UnexploredPath, IgnoreAttempt, NotDeterministic
from crosshair.libimpl.builtinslib import SymbolicInt, SymbolicBool, PreciseIeeeSymbolicFloat, make_bounded_int
import z3

class Reject(Exception):
    """assumption not met"""

class Sym:
    def __init__(self): self.vals = {}
    def int(self, name, lo, hi):
        with NoTracing():
            v = SymbolicInt(name + context_statespace().uniq())
            context_statespace().add(z3.And(v.var >= lo, v.var <= hi))
        self.vals[name] = v
        return v
    def bool(self, name):
        with NoTracing():
            v = SymbolicBool(name + context_statespace().uniq())
        self.vals[name] = v
        return v
    def f64(self, name):
        with NoTracing():
            v = PreciseIeeeSymbolicFloat(name + context_statespace().uniq())
        self.vals[name] = v
        return v
    def assume(self, c):
        if not c: raise Reject()

class Conc:
    def __init__(self, vals): self.vals = vals
    def int(self, name, lo, hi): return self.vals[name]
    def bool(self, name): return self.vals[name]
    def f64(self, name): return self.vals[name]
    def assume(self, c):
        if not c: raise Reject()

def explore(harness, budget_s=60.0, per_path=10.0):
    root = RootNode()
    t0 = time.time(); n = 0; confirmed = 0; rejected = 0; unknown = 0
    cex = None; exhausted = False
    with Patched():
        while time.time() - t0 < budget_s:
            n += 1
            start = time.process_time()
            space = StateSpace(execution_deadline=start + per_path, model_check_timeout=per_path/2, search_root=root)
            try:
                with StateSpaceContext(space), COMPOSITE_TRACER, NoTracing():
                    sym = Sym()
                    try:
                        with ResumedTracing():
                            ok = harness(sym)
                            ok = bool(ok)
                        if ok:
                            ca = CallAnalysis(VerificationStatus.CONFIRMED); confirmed += 1
                        else:
                            with ResumedTracing():
                                vals = {k: deep_realize(v) for k, v in sym.vals.items()}
                            cex = vals
                            ca = CallAnalysis(VerificationStatus.REFUTED)
                    except Reject:
                        ca = CallAnalysis(); rejected += 1
                    except (UnexploredPath, IgnoreAttempt, NotDeterministic):
                        raise
                    except Exception as e:
                        with ResumedTracing():
                            vals = {k: deep_realize(v) for k, v in sym.vals.items()}
                        cex = dict(vals, __exc__=repr(e))
                        ca = CallAnalysis(VerificationStatus.REFUTED)
            except UnexploredPath:
                ca = CallAnalysis(VerificationStatus.UNKNOWN); unknown += 1
            except IgnoreAttempt:
                ca = CallAnalysis(); rejected += 1
            top, exhausted = space.bubble_status(ca)
            if cex is not None or exhausted:
                break
    return dict(paths=n, confirmed=confirmed, rejected=rejected, unknown=unknown,
                exhausted=exhausted, cex=cex, wall=round(time.time()-t0, 2),
                status=(top.verification_status.name if top and top.verification_status else None))
