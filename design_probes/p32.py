import sys
from symx import *
from ioflo.aio.http import serving, httping

class Inc: timeout = 1.0

TEMPLATE = bytearray(b"GET /a HTTP/1.1\r\nHost: x\r\nContent-Length: 2\r\n\r\nhi")

def h(sym):
    # byte-level mutation: up to 2 positions replaced by symbolic byte
    msg = bytearray(TEMPLATE)
    for j in range(2):
        pos = sym.int("pos%d" % j, 0, len(TEMPLATE) - 1)
        val = sym.int("val%d" % j, 0, 255)
        with NoTracing():
            pass
        msg[pos] = val
    r = serving.Requestant(msg=bytearray(), incomer=Inc())
    cut = sym.int("cut", 0, len(TEMPLATE))
    r.msg.extend(msg[:cut])
    try:
        r.parse()
        r.msg.extend(msg[cut:])
        while r.parser:
            before = len(r.msg)
            r.parse()
            if r.parser and len(r.msg) == before:
                break
    except httping.HTTPException:
        return False
    return True

print(explore(h, budget_s=float(sys.argv[1]) if len(sys.argv) > 1 else 60))
