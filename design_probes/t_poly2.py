import sys, time, z3, itertools
sys.path.insert(0, '/repo')
import astsmt
from astsmt import *
from ioflo.aid import vectoring as V
astsmt.DEFAULT_BV = 0
def orient(a, b, c): return (b[0]-a[0])*(c[1]-a[1]) - (b[1]-a[1])*(c[0]-a[0])
def mn(a, b): return a if a < b else b
def mx(a, b): return a if a > b else b
def onseg(q, a, b):
    return z3.And(orient(a, b, q) == 0, mn(a[0], b[0]) <= q[0], q[0] <= mx(a[0], b[0]), mn(a[1], b[1]) <= q[1], q[1] <= mx(a[1], b[1]))
G = int(sys.argv[1])
pts = [(x, y) for x in range(G) for y in range(G)]
p = (z3.Int("px"), z3.Int("py"))
s = z3.Solver()
n = 0; t0 = time.time(); tsolve = 0
for vs in itertools.permutations(pts, 3):
    if orient(*vs) == 0: continue
    vs = list(vs)
    I = Interp(V.__dict__)
    w = I.call(V.wind, [p, vs]); it = I.call(V.inside, [p, vs, True]); inf = I.call(V.inside, [p, vs, False]); side = I.call(V.sideOnly, [p, vs])
    on = z3.Or([onseg(p, vs[i], vs[(i+1) % 3]) for i in range(3)])
    d = [orient(vs[i], vs[(i+1) % 3], p) for i in range(3)]
    inn = z3.And(z3.Not(on), z3.Or(z3.And(d[0] > 0, d[1] > 0, d[2] > 0), z3.And(d[0] < 0, d[1] < 0, d[2] < 0)))
    spec = z3.And((w != 0) == inn, it == z3.Or(inn, on), inf == inn, side == on)
    s.push(); s.add(z3.Not(spec)); t = time.time(); r = s.check(); tsolve += time.time() - t; s.pop()
    n += 1
    if str(r) != 'unsat': print("NOT UNSAT", vs, r, s.model() if str(r) == 'sat' else ''); break
print("queries", n, "wall", round(time.time() - t0, 1), "solve", round(tsolve, 1))
