import sys
from symx import *
from ioflo.aid import byting as B

FMT = sys.argv[2] if len(sys.argv) > 2 else "1 3 2 2"
widths = [int(x) for x in FMT.split()]
def h(sym):
    fields = [sym.int("f%d" % i, 0, 2**20) for i in range(len(widths))]
    packed = B.packify(FMT, fields)
    un = B.unpackify(FMT, packed)
    tb = sum(widths)
    size = (tb + 7) // 8
    if len(packed) != size: return False
    for i, w in enumerate(widths):
        exp = (1 if fields[i] else 0) if w == 1 else fields[i] & ((1 << w) - 1)
        if un[i] != exp: return False
    if tb % 8:
        if len(un) != len(widths) + 1 or un[-1] != 0: return False
    rev = B.packify(FMT, fields, reverse=True)
    if bytes(rev) != bytes(packed)[::-1]: return False
    return True
print(explore(h, budget_s=float(sys.argv[1]) if len(sys.argv) > 1 else 60))
