import sys, time, z3, itertools
sys.path.insert(0, '/repo')
import astsmt
from astsmt import *
from ioflo.aid import byting as B
astsmt.DEFAULT_BV = 40
W = 40
def compositions(n):
    if n == 0: yield []; return
    for first in range(1, n + 1):
        for rest in compositions(n - first): yield [first] + rest
tot = int(sys.argv[1])
nq = 0; t0 = time.time(); tsolve = 0; npaths = 0
s = z3.Solver()
for total in range(1, tot + 1):
  for comp in compositions(total):
    fmt = " ".join(str(x) for x in comp)
    fields = [z3.BitVec("f%d" % i, W) for i in range(len(comp))]
    size = (total + 7) // 8
    def thunk(I):
        packed = I.call(B.packify, [fmt, fields])
        return packed
    paths = run_all(lambda: Interp(B.__dict__), thunk)
    npaths += len(paths)
    # exhaustiveness of assumptions
    s.push(); s.add(z3.Not(z3.Or([z3.And(*a) if a else z3.BoolVal(True) for a, _, _ in paths]))); r = s.check(); s.pop(); nq += 1
    assert str(r) == 'unsat', ("not exhaustive", fmt)
    for assume, packed, I in paths:
        if len(packed) != size: print("LEN", fmt, len(packed)); continue
        I2 = Interp(B.__dict__)
        un = I2.call(B.unpackify, [fmt, [z3.ZeroExt(W - 8, z3.Extract(7, 0, x)) if is_sym(x) else x for x in packed]])
        claims = []
        for i, w in enumerate(comp):
            exp = z3.If(fields[i] != 0, z3.BitVecVal(1, W), z3.BitVecVal(0, W)) if w == 1 else fields[i] & ((1 << w) - 1)
            claims.append(un[i] == exp if is_sym(un[i]) else z3.BitVecVal(un[i], W) == exp)
        if total % 8:
            claims.append((un[-1] == 0) if is_sym(un[-1]) else z3.BoolVal(un[-1] == 0))
            claims.append(z3.BoolVal(len(un) == len(comp) + 1))
        s.push(); s.add(*assume); s.add(z3.Not(z3.And(*claims))); t = time.time(); r = s.check(); tsolve += time.time() - t; s.pop(); nq += 1
        if str(r) != 'unsat': print("FAIL", fmt, r, s.model() if str(r) == 'sat' else ''); sys.exit(1)
print("formats up to", tot, "queries", nq, "shape-paths", npaths, "wall", round(time.time() - t0, 1), "solve", round(tsolve, 2))
