import sys, errno, socket
from collections import deque
from symx import *
from ioflo.aio.tcp import clienting
LOSS = (errno.ECONNRESET, errno.ENETRESET, errno.ENETUNREACH, errno.EHOSTUNREACH, errno.ENETDOWN, errno.EHOSTDOWN, errno.ETIMEDOUT, errno.ECONNREFUSED)
BLOCK = (errno.EAGAIN, errno.EWOULDBLOCK)
class SymErr(socket.error):
    def __init__(self, e, msg):
        socket.error.__init__(self)
        self._a = (e, msg)
    args = property(lambda self: self._a)
class Sock:
    def __init__(self, e): self.e = e
    def send(self, data): raise SymErr(self.e, "x")
    def recv(self, n): raise SymErr(self.e, "x")
def mk():
    c = clienting.Client.__new__(clienting.Client)
    c.wlog = None; c.cutoff = False; c._accepted = True; c.ca = c.ha = ("127.0.0.1", 1); c.bs = 8
    c.txes = deque(); c.rxbs = bytearray()
    return c
def h(sym):
    e = sym.int("errno", 1, 200)
    op = sym.int("op", 0, 1)
    c = mk(); c.cs = Sock(e)
    raised = None
    try:
        r = c.send(b"abc") if op == 0 else c.receive()
    except socket.error as ex:
        raised = ex
    if e in LOSS:
        return raised is None and c.cutoff and (r == 0 if op == 0 else r == b"")
    if e in BLOCK:
        return raised is None and not c.cutoff and (r == 0 if op == 0 else r is None)
    return raised is not None and raised.args[0] == e and not c.cutoff
print(explore(h, budget_s=60))
