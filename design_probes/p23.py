import collections.abc, sys, io, os as realos
from symx import *
from crosshair.core import realize
from ioflo.aid import consoling
console = consoling.getConsole(verbosity=0)
from ioflo.base import logging as L, storing, housing
from ioflo.base.globaling import *

class FS:
    """in-memory file system: per path written / flushed / durable content + op journal"""
    def __init__(self): self.files = {}; self.durable = {}; self.ops = 0; self.crash_at = None; self.snapshot = None
    def tick(self):
        self.ops += 1
        if self.crash_at is not None and self.ops == self.crash_at and self.snapshot is None:
            self.snapshot = dict(self.durable)
class F(io.StringIO):
    def __init__(self, fs, path, mode):
        self.fs, self.path = fs, path
        init = "" if mode.startswith("w") else fs.files.get(path, "")
        super().__init__(init)
        if mode.startswith("w"): fs.files[path] = ""
        if mode.startswith("a"): self.seek(0, 2)
        fs.files.setdefault(path, init); fs.durable.setdefault(path, "")
    def write(self, s):
        r = super().write(s); self.fs.files[self.path] = self.getvalue(); self.fs.tick(); return r
    def fileno(self): return self
    def close(self):
        if not self.closed: self.fs.files[self.path] = self.getvalue()
        super().close()
class PathD:
    def __init__(self, fs): self.fs = fs
    def exists(self, p): return p in self.fs.files
    def getsize(self, p): return len(self.fs.files[p])
    def __getattr__(self, n): return getattr(realos.path, n)
class OsD:
    def __init__(self, fs): self.fs = fs; self.path = PathD(fs)
    def rename(self, a, b):
        self.fs.files[b] = self.fs.files.pop(a); self.fs.durable[b] = self.fs.durable.pop(a, ""); self.fs.tick()
    def fsync(self, f): self.fs.durable[f.path] = f.getvalue(); self.fs.tick()
    def makedirs(self, p): pass
    def __getattr__(self, n): return getattr(realos, n)

K = int(sys.argv[2]) if len(sys.argv) > 2 else 4
def h(sym):
    fs = FS()
    L.os = OsD(fs); L.ocfn = lambda path, mode='r+', binary=False: F(fs, path, 'a+' if mode == 'r' and path not in fs.files else mode)
    try:
        housing.House.Clear(); housing.ClearRegistries()
        store = storing.Store(name="s", stamp=0.0)
        sh = store.create("a.b").update(value=0)
        keep = realize(sym.int("keep", 1, 2))
        size = sym.int("size", 0, 40)
        lg = L.Logger(name="lgr", store=store, keep=keep, cyclePeriod=1.0, fileSize=0, prefix="/x")
        lg.fileSize = size; lg.cyclePeriod = sym.int("cyc", 1, 3); lg.flushPeriod = sym.int("fl", 1, 3)
        lg.path = "/x/h/lgr"
        log = L.Log(name="lg", store=store, kind='text', rule=ALWAYS); log.addLoggee("v", sh)
        lg.addLog(log)
        lg.cycleStamp = 0; lg.flushStamp = 0; store.stamp = 0
        assert lg.reopen(); lg.prepare()
        hdr = log.header
        n = 0
        for k in range(K):
            store.stamp = k; sh.update(value=k)
            lg.log(); n += 1
        lg.close()
        # read back oldest..newest
        texts = [fs.files.get(p, "") for p in reversed(log.paths)]
        recs = []
        for t in texts:
            if not t: continue
            if not t.startswith(hdr): return False
            recs += [l.split("\t")[1] for l in t[len(hdr):].splitlines()]
        exp = [str(i) for i in range(K)]
        # contiguous suffix, each once, in order
        return recs == exp[len(exp) - len(recs):] and len(set(recs)) == len(recs)
    finally:
        L.os = realos; from ioflo.aid.filing import ocfn; L.ocfn = ocfn
print(explore(h, budget_s=float(sys.argv[1]) if len(sys.argv) > 1 else 60))
