import sys
from symx import *
from ioflo.base import building as B
def h(sym):
    n = sym.int("n", -10**6, 10**6)
    t = str(n)
    v = B.Convert2Num(t)
    if v != n or type(v) is not int: return False
    m = sym.int("m", 0, 10**6)
    hx = "0x%x" % m
    v2 = B.Convert2Num(hx)
    return v2 == m
print(explore(h, budget_s=float(sys.argv[1]) if len(sys.argv) > 1 else 60))
