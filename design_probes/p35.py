import collections.abc, sys, errno, socket
from collections import deque
from symx import *
from crosshair.core import realize
from ioflo.aid import consoling
console = consoling.getConsole(verbosity=0)
from ioflo.aio.proto import stacking
class SymErr(socket.error):
    def __init__(self, e): socket.error.__init__(self); self._a = (e, "x")
    args = property(lambda self: self._a)
class Pkt:
    def __init__(self, i): self.packed = bytes([i]); self.i = i
class Handler:
    opened = True; ha = ("127.0.0.1", 1)
    def reopen(self): return True
    def __init__(self, sym): self.sym = sym; self.sent = []; self.n = 0
    def send(self, data, ha):
        k = self.n; self.n += 1
        if self.sym.bool("fail%d" % k): raise SymErr(errno.ECONNREFUSED)
        self.sent.append((data[0], ha)); return len(data)
NP = int(sys.argv[2]) if len(sys.argv) > 2 else 3
def h(sym):
    hd = Handler(sym)
    st = stacking.GramStack(name="s", handler=hd, ha=("127.0.0.1", 1))
    dests = []
    for i in range(NP):
        d = realize(sym.int("d%d" % i, 0, 1)); dests.append(d)
        st.txPkts.append((Pkt(i), d))
    st.serviceTxPkts()
    sent = st.handler.sent
    # each at most once
    ids = [i for i, d in sent]
    if len(set(ids)) != len(ids): return False
    # remaining + sent = all, exactly once
    rest = [p.i for p, d in st.txPkts]
    if sorted(ids + rest) != list(range(NP)): return False
    # per destination order preserved in remaining queue and in sent
    for d in (0, 1):
        if [i for i, dd in sent if dd == d] != sorted(i for i, dd in sent if dd == d): return False
        q = [p.i for p, dd in st.txPkts if dd == d]
        if q != sorted(q): return False
        # sent ones precede remaining ones for same destination
        s_ = [i for i, dd in sent if dd == d]
        if s_ and q and max(s_) > min(q): return False
    return True
print(explore(h, budget_s=float(sys.argv[1]) if len(sys.argv) > 1 else 60))
