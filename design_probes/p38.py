import collections.abc, sys
from symx import *
from crosshair.core import realize
from ioflo.aid import consoling
console = consoling.getConsole(verbosity=0)
from ioflo.aid.timing import Stamper
from ioflo.aio.proto import exchanging
class Stack:
    name = "s"
    def __init__(self): self.stamper = Stamper(stamp=0.0); self.tx = []
    def transmit(self, pkt, ha=None): self.tx.append(pkt)
class Dev: name = "d"; ha = None
def h(sym):
    st = Stack()
    to = sym.int("to", 0, 6); rt = sym.int("rt", 0, 6)
    use_to = realize(sym.bool("use_to")); use_rt = realize(sym.bool("use_rt"))
    ex = exchanging.Exchange(stack=st, device=Dev(), timeout=(to if use_to else None), redoTimout=(rt if use_rt else None), tx="m")
    return True
print(explore(h, budget_s=30))
