import collections.abc, sys
from ioflo.aid import consoling
console = consoling.getConsole(verbosity=0)
from ioflo.base import skedding, housing, tasking
from ioflo.base.globaling import *
def run(P, p, K):
    housing.House.Clear(); housing.ClearRegistries()
    house = housing.House(name="h"); house.assignRegistries()
    ticks = []
    class T(tasking.Tasker):
        def makeRunner(self):
            self.status = STOPPED; self.desire = STOP
            while True:
                c = (yield self.status)
                if c in (START, RUN):
                    ticks.append(self.store.stamp); self.status = RUNNING if c == RUN else STARTED; self.desire = RUN
                elif c == STOP: self.status = STOPPED
                else: self.status = ABORTED
    t = T(name="t", store=house.store, period=p, schedule=ACTIVE)
    n = [0]
    class C(tasking.Tasker):
        def makeRunner(self):
            self.status = STOPPED; self.desire = STOP
            while True:
                c = (yield self.status)
                if c == START: self.status = STARTED; self.desire = RUN
                elif c == RUN:
                    self.status = RUNNING; n[0] += 1
                    if n[0] >= K: t.desire = STOP; self.desire = STOP
                elif c == STOP: self.status = STOPPED
                else: self.status = ABORTED
    c = C(name="c", store=house.store, schedule=ACTIVE)
    house.taskables = [t, c]
    sk = skedding.Skedder(name="s", period=P, houses=[house]); sk.run()
    return ticks
P = 1.062554365024043878662496354081667959690093994140625 * 2
tk = run(P, 2 * P, 8)
print([round(x / P, 6) for x in tk])
print([round(x / 0.1, 6) for x in run(0.1, 0.2, 10)])
