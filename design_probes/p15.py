import collections.abc, os, tempfile
from ioflo.aid import consoling
console = consoling.getConsole(verbosity=0)
from ioflo.base import building, excepting
d = tempfile.mkdtemp()
def build(txt):
    fn = os.path.join(d, "c.flo"); open(fn, "w").write(txt)
    try:
        b = building.Builder(fileName=fn); r = b.build()
        f = b.houses[0].framers[0]
        return (r, f.first.name if hasattr(f.first, 'name') else f.first, f.inode)
    except Exception as e:
        return ("EXC", type(e).__name__, str(e)[:70])
A = "house h\n  framer f be active first a via x of framer\n    frame a\n"
B = "house h\n  framer f be active via x of framer first a\n    frame a\n"
print(build(A)); print(build(B))
