from symx import *
import traceback
def h(sym):
    s = sym.f64("s")
    try:
        a = s == s
        b = abs(s) < 1e300
        c = s >= 0.0
        d = s + 1.0
        e = d > s
        f = bool(e)
    except Exception:
        traceback.print_exc(); raise
    return True
print(explore(h, budget_s=10))
