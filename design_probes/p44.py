import sys
from fractions import Fraction
from symx import *
from ioflo.aid import vectoring as V

def orient(a, b, c):
    return (b[0]-a[0])*(c[1]-a[1]) - (b[1]-a[1])*(c[0]-a[0])

def on_seg(p, a, b):
    if orient(a, b, p) != 0: return False
    return min(a[0], b[0]) <= p[0] <= max(a[0], b[0]) and min(a[1], b[1]) <= p[1] <= max(a[1], b[1])

def ref_tri(p, vs):
    """classify point vs non-degenerate triangle: 'in','on','out'"""
    for i in range(3):
        if on_seg(p, vs[i], vs[(i+1) % 3]): return 'on'
    d = [orient(vs[i], vs[(i+1) % 3], p) for i in range(3)]
    if (d[0] > 0 and d[1] > 0 and d[2] > 0) or (d[0] < 0 and d[1] < 0 and d[2] < 0): return 'in'
    return 'out'

G = int(sys.argv[2]) if len(sys.argv) > 2 else 3
def h(sym):
    vs = [(sym.int("x%d" % i, -G, G), sym.int("y%d" % i, -G, G)) for i in range(3)]
    p = (sym.int("px", -G, G), sym.int("py", -G, G))
    sym.assume(orient(vs[0], vs[1], vs[2]) != 0)
    c = ref_tri(p, vs)
    w = V.wind(p, vs)
    if c == 'in':
        return w != 0 and V.inside(p, vs, True) and V.inside(p, vs, False)
    if c == 'on':
        return w == 0 and V.inside(p, vs, True) and not V.inside(p, vs, False) and V.sideOnly(p, vs)
    return w == 0 and not V.inside(p, vs, True) and not V.inside(p, vs, False) and not V.sideOnly(p, vs)

print(explore(h, budget_s=float(sys.argv[1]) if len(sys.argv) > 1 else 60))
