import sys
from symx import *
from ioflo.base.storing import Store, Share, Node

UNIV = ["a", "a.b", "a.b.c", "a.c", "b", "b.a"]
ARGS = ["a", "a.b", "a.b.c", "a.c", "b", "b.a", ".a", "a.", ".a.b.", "a.b.c.d", "c"]
BAD = ["a..b", "", "..", "a.b..c"]
if len(sys.argv) > 1: ARGS = ARGS + BAD

def snapshot(store):
    out = {}
    def walk(node, prefix):
        for k, v in node.items():
            p = prefix + [k]
            if isinstance(v, Share):
                out[".".join(p)] = ("S", id(v), v.name)
            else:
                out[".".join(p)] = ("N", id(v), v.name)
                walk(v, p)
    walk(store.shares, [])
    return out

def h(sym):
    store = Store.__new__(Store)
    store.name = "s"; store.stamp = None; store.house = None
    store.shares = Node().byName('')
    kinds = {}
    for p in UNIV:
        k = sym.int("k_" + p, 0, 2)   # 0 absent 1 node 2 share
        parent = p.rsplit(".", 1)[0] if "." in p else None
        if k != 0 and parent is not None:
            sym.assume(kinds[parent] == 1)
        kinds[p] = k
        if k == 1: store.addNode(p)
        elif k == 2: store.add(Share(name=p))
    op = sym.int("op", 0, 3)
    ai = sym.int("arg", 0, len(ARGS) - 1)
    path = ARGS[ai]
    before = snapshot(store)
    try:
        if op == 0: store.add(Share(name=path))
        elif op == 1: store.addNode(path)
        elif op == 2: store.create(path)
        else: store.createNode(path)
    except ValueError:
        if snapshot(store) != before: return False
    for p, (k, i, n) in snapshot(store).items():
        if n.strip('.') != p: return False
    return True

print(explore(h, budget_s=float(300)))
