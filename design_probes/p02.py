import collections.abc, sys
from symx import *
from ioflo.aid import consoling
console = consoling.getConsole(verbosity=0)
from ioflo.base import skedding, housing, tasking, storing
from ioflo.base.globaling import *

class Rec:
    """recording runner double: logs then delegates to the real generator"""
    def __init__(self, tasker, log): self.t = tasker; self.g = tasker.runner; self.log = log
    def send(self, control):
        st = self.g.send(control)
        self.log.append((self.t.name, self.t.store.stamp, control, st))
        return st

K = int(sys.argv[2]) if len(sys.argv) > 2 else 4
NT = int(sys.argv[3]) if len(sys.argv) > 3 else 2
def h(sym):
    housing.House.Clear(); housing.ClearRegistries()
    house = housing.House(name="h")
    house.assignRegistries()
    log = []
    ts = []
    P = sym.int("P", 1, 3)
    ps = []
    for i in range(NT):
        t = tasking.Tasker(name="t%d" % i, store=house.store, schedule=ACTIVE)
        p = sym.int("p%d" % i, 0, 7); ps.append(p)
        t.period = p
        t.runner = Rec(t, log)
        ts.append(t)
    # controller: stops everyone at tick K
    class Ctl(tasking.Tasker):
        def makeRunner(self):
            self.status = STOPPED; self.desire = STOP; n = 0
            while True:
                control = (yield self.status)
                if control == START: self.status = STARTED; self.desire = RUN
                elif control == RUN:
                    self.status = RUNNING
                    n += 1
                    if n >= K:
                        for t in ts: t.desire = STOP
                        self.desire = STOP
                elif control == STOP: self.status = STOPPED
                else: self.status = ABORTED
    ctl = Ctl(name="ctl", store=house.store, schedule=ACTIVE)
    house.taskables = ts + [ctl]
    sk = skedding.Skedder(name="s", period=1.0, houses=[house])
    sk.period = P
    sk.stamp = 0
    sk.run()
    # oracle
    for i, t in enumerate(ts):
        runs = [s for (n, s, c, st) in log if n == t.name and c in (START, RUN)]
        # ideal: k-th run at first tick n*P > previous with n*P >= k*p
        exp = []; last = -1; k = 0
        for n in range(0, K + 1):
            tm = n * P
            if n > last and tm >= k * ps[i]:
                exp.append(tm); last = n; k += 1
        if runs != exp[:len(runs)] or len(runs) < len(exp) - 1: return False
    return True
print(explore(h, budget_s=float(sys.argv[1]) if len(sys.argv) > 1 else 60))
