import sys, os, tempfile, time
from symx import *
from crosshair.core import realize
from ioflo.aid import consoling
from ioflo.base import skedding, building, housing, storing, doing
from ioflo.base.globaling import *
console = consoling.getConsole()

LOG = []
@doing.doify('VerifRecord')
def verifRecord(self, **kwa):
    LOG.append((self._act.frame.name, self._act.context))

TMP = tempfile.mkdtemp()
def gen(N, parent, first, near, far, guards):
    lines = ["house h", "  framer m be active first f%d" % first]
    for i in range(N):
        lines.append("    frame f%d%s" % (i, (" in f%d" % parent[i]) if parent[i] >= 0 else ""))
        if guards:
            lines.append("      let me if g%d >= 1" % i)
        for ctx in ("enter", "exit", "renter", "rexit", "recur"):
            lines.append("      do verif record at %s" % ctx)
        if i == near:
            lines.append("      do verif record at precur")
            lines.append("      go f%d if x >= 1" % far)
    return "\n".join(lines) + "\n"

def outline(N, parent, a):
    up = []; f = a
    while f >= 0: up.append(f); f = parent[f]
    up.reverse()
    f = a
    while True:
        kids = [k for k in range(N) if parent[k] == f]
        if not kids: break
        f = kids[0]; up.append(f)
    return up

N = int(sys.argv[2]) if len(sys.argv) > 2 else 3
def h(sym):
    parent = [-1]
    for i in range(1, N):
        parent.append(realize(sym.int("par%d" % i, -1, i - 1)))
    first = realize(sym.int("first", 0, N - 1))
    cur = outline(N, parent, first)
    near = cur[realize(sym.int("nearidx", 0, len(cur) - 1))]
    far = realize(sym.int("far", 0, N - 1))
    with NoTracing():
        fn = os.path.join(TMP, "p.flo")
        open(fn, "w").write(gen(N, parent, first, near, far, True))
        b = building.Builder(fileName=fn)
        ok = b.build()
        assert ok
        house = b.houses[0]
    store = house.store
    gs = [store.create("g%d" % i) for i in range(N)]
    for i in cur:
        gs[i].update(value=1)          # let start succeed
    x = store.create("x"); x.update(value=0)
    f = house.framers[0]
    store.changeStamp(0.0)
    del LOG[:]
    f.desire = START
    st = f.runner.send(START)
    if st != STARTED: return False
    if [fr.name for fr in f.actives] != ["f%d" % i for i in cur]: return False
    entered0 = [n for (n, c) in LOG if c == 'enter']
    if entered0 != ["f%d" % i for i in cur]: return False
    # tick 1: symbolic guards and x
    gv = []
    for i in range(N):
        v = sym.int("g%d" % i, 0, 1); gs[i].update(value=v); gv.append(v)
    xv = sym.int("x", 0, 1); x.update(value=xv)
    store.changeStamp(1.0)
    del LOG[:]
    st = f.runner.send(RUN)
    fars = outline(N, parent, far)
    # spec
    k = 0
    while k < len(cur) and k < len(fars) and cur[k] == fars[k] and cur[k] != far: k += 1
    exits, enters, common = cur[k:], fars[k:], cur[:k]
    take = (xv >= 1) and all(gv[i] >= 1 for i in enters) and len(enters) > 0
    names = lambda l: ["f%d" % i for i in l]
    if take:
        exp = [("f%d" % near, 'precur')]
        exp += [(n, 'exit') for n in reversed(names(exits))]
        exp += [(n, 'rexit') for n in reversed(names(common))]
        exp += [(n, 'renter') for n in names(common)]
        exp += [(n, 'enter') for n in names(enters)]
        exp += [(n, 'recur') for n in names(fars)]
        expact = names(fars)
    else:
        exp = [("f%d" % near, 'precur')] + [(n, 'recur') for n in names(cur)]
        expact = names(cur)
    if LOG != exp: return False
    if [fr.name for fr in f.actives] != expact: return False
    return True

r = explore(h, budget_s=float(sys.argv[1]) if len(sys.argv) > 1 else 60)
print(r)
