import sys, time, z3
sys.path.insert(0, '/repo')
import astsmt
from astsmt import *
from ioflo.aid import navigating as Nv
astsmt.DEFAULT_BV = 0
a = z3.Real("a")
w = 180; B = float(sys.argv[1])
I = Interp(Nv.__dict__)
r2 = I.call(Nv.wrap2, [a, z3.RealVal(w)])
print(r2)
print(I.defs)
kk = z3.Int("kk"); rem = (r2 - a) - 2 * w * z3.ToReal(kk)
s = z3.Solver(); s.set("timeout", 60000)
s.add(*I.defs); s.add(rem >= 0, rem < 2 * w); s.add(rem != 0); s.add(a >= -B, a <= B)
t = time.time(); print(s.check(), s.reason_unknown() if True else '', round(time.time() - t, 2))
open("wrap2.smt2", "w").write("(set-logic QF_LIRA)\n" + s.to_smt2())
