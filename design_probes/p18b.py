from typing import List, Tuple
from ioflo.base import storing
from ioflo.base.storing import Store, Share, Node

PATHS = ["a", "a.b", "a.b.c", "a.c", "b", ".a", "a.", "b.a"]

def snapshot(store):
    out = {}
    def walk(node, prefix):
        for k, v in node.items():
            p = prefix + [k]
            if isinstance(v, Share):
                out[".".join(p)] = ("S", id(v), v.name)
            else:
                out[".".join(p)] = ("N", id(v), v.name)
                walk(v, p)
    walk(store.shares, [])
    return out

def run(ops: List[Tuple[int, int]]) -> bool:
    """
    pre: len(ops) <= 3
    pre: all(0 <= o[0] < 4 and 0 <= o[1] < 8 for o in ops)
    post: _
    """
    store = Store.__new__(Store)
    store.name = "s"; store.stamp = None; store.house = None
    store.shares = Node().byName('')
    ok = True
    for op, pi in ops:
        path = PATHS[pi]
        before = snapshot(store)
        try:
            if op == 0:
                store.add(Share(name=path))
            elif op == 1:
                store.addNode(path)
            elif op == 2:
                store.create(path)
            else:
                store.createNode(path)
        except ValueError:
            if snapshot(store) != before:
                ok = False
        # names invariant
        for p, (k, i, n) in snapshot(store).items():
            if n.strip('.') != p:
                ok = False
    return ok
