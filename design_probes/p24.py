import sys, errno, socket
from collections import deque
from symx import *
from ioflo.aio.tcp import clienting

class SockDouble:
    def __init__(self, sym, maxcalls):
        self.sym = sym; self.accepted = bytearray(); self.calls = 0; self.maxcalls = maxcalls
    def send(self, data):
        i = self.calls; self.calls += 1
        assert i < self.maxcalls
        kind = self.sym.int("kind%d" % i, 0, 2)
        if kind == 1:
            raise socket.error(errno.EAGAIN, "again")
        if kind == 2:
            raise socket.error(errno.ECONNRESET, "reset")
        n = self.sym.int("n%d" % i, 0, len(data))
        self.accepted.extend(data[:n])
        return n

def h(sym):
    c = clienting.Client.__new__(clienting.Client)
    c.wlog = None; c.cutoff = False; c._accepted = True; c.ca = c.ha = ("127.0.0.1", 1)
    msgs = []
    nm = 3
    k = 0
    for i in range(nm):
        ln = sym.int("len%d" % i, 0, 4)
        m = bytes(range(k, k + 4))[:ln]; k += 4   # distinct content
        msgs.append(m)
    c.txes = deque(msgs)
    whole = b"".join(msgs)
    c.cs = SockDouble(sym, nm + 1)
    c.serviceTxes()
    rest = b"".join(c.txes)
    if bytes(c.cs.accepted) + rest != whole:
        return False
    return True

print(explore(h, budget_s=float(sys.argv[1]) if len(sys.argv) > 1 else 120))
