import collections.abc, sys, os, tempfile
from symx import *
from crosshair.core import realize
from ioflo.aid import consoling
console = consoling.getConsole(verbosity=0)
from ioflo.base import skedding, building, housing, storing, doing
from ioflo.base.globaling import *
LOG = []
CR = {}
@doing.doify('VerifRecord')
def verifRecord(self, **kwa):
    LOG.append((self._act.frame.framer.name, self._act.frame.name, self._act.context))
@doing.doify('VerifCrash')
def verifCrash(self, **kwa):
    CR['n'] += 1
    if CR['n'] == CR['at']:
        k = CR['kind']
        if k == 1: raise ValueError("boom")
        if k == 2: raise KeyboardInterrupt()
SCRIPT = """house h
  framer m be active first a
    frame t
      do verif record at enter
      do verif record at exit
      frame a in t
        do verif record at enter
        do verif record at exit
        do verif crash
        go next if elapsed >= 2.0
      frame b in t
        do verif record at enter
        do verif record at exit
        do verif crash
        go next if elapsed >= 1.0
    frame c
      bid stop all
  framer n be active first x
    frame x
      do verif record at enter
      do verif record at exit
      do verif crash
"""
d = tempfile.mkdtemp(); fn = os.path.join(d, "c.flo"); open(fn, "w").write(SCRIPT)
class Rec:
    def __init__(self, tasker, log): self.t = tasker; self.g = tasker.runner; self.log = log
    def send(self, control):
        st = self.g.send(control); self.log.append((self.t.name, control, st)); return st
def h(sym):
    with NoTracing():
        b = building.Builder(fileName=fn); assert b.build()
    house = b.houses[0]
    ctl = []
    for t in house.taskables: t.runner = Rec(t, ctl)
    del LOG[:]
    CR['n'] = 0; CR['at'] = sym.int("at", 0, 12); CR['kind'] = realize(sym.int("kind", 0, 2))
    sk = skedding.Skedder(name="s", period=1.0, houses=b.houses)
    raised = None
    try:
        sk.run()
    except ValueError as ex:
        raised = ex
    crashed = CR['n'] >= CR['at'] and CR['at'] > 0 and CR['kind'] != 0
    if (raised is not None) != (crashed and CR['kind'] == 1): return False
    # bracket: every entered frame exited
    open_ = []
    for (fr, frame, ctx) in LOG:
        if ctx == 'enter': open_.append((fr, frame))
        elif ctx == 'exit':
            if not open_ or (fr, frame) not in open_: return False
            open_.remove((fr, frame))
    if open_: return False
    return True
print(explore(h, budget_s=float(sys.argv[1]) if len(sys.argv) > 1 else 60))
