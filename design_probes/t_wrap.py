import sys, time, z3
sys.path.insert(0, '/repo')
import astsmt
from astsmt import *
from fractions import Fraction
from ioflo.aid import navigating as Nv
astsmt.DEFAULT_BV = 0
a = z3.Real("a"); d = z3.Real("d"); k = z3.Int("k")
DEFS = []
s = z3.Solver(); s.set("timeout", 8000); n = 0; t0 = time.time()
def chk(name, claim):
    global n
    s.push(); s.add(*DEFS); s.add(z3.Not(claim)); r = s.check(); n += 1
    print(name, r, flush=True)
    s.pop()
for w in [1, 2, 3, 90, 180, 360, 0.5, 2.5, -1, -2, -180, -360, -0.5]:
    I = Interp(Nv.__dict__)
    wv = z3.RealVal(str(w))
    r1 = I.call(Nv.wrap1, [a, wv])
    r2 = I.call(Nv.wrap2, [a, wv])
    dl = I.call(Nv.delta, [d, a, wv])
    r2d = I.call(Nv.wrap2, [d - a, wv])
    DEFS[:] = I.defs
    lo, hi = (0, w) if w > 0 else (w, 0)
    if w > 0: chk("wrap1 range %s" % w, z3.And(r1 >= 0, r1 < w))
    else: chk("wrap1 range %s" % w, z3.And(r1 > w, r1 <= 0))
    chk("wrap1 turns %s" % w, z3.IsInt((r1 - a) / wv))
    aw = abs(w)
    chk("wrap2 range %s" % w, z3.And(r2 >= -aw, r2 <= aw))
    kk = z3.FreshInt("kk"); rem = (r2 - a) - 2 * abs(w) * z3.ToReal(kk)
    DEFS.append(z3.And(rem >= 0, rem < 2 * abs(w)))
    chk("wrap2 turns %s" % w, rem == 0)
    chk("delta %s" % w, dl == r2d)
I = Interp(Nv.__dict__); DEFS[:] = []
chk("wrap1 zero", I.call(Nv.wrap1, [a, z3.RealVal(0)]) == a)
chk("wrap2 zero", I.call(Nv.wrap2, [a, z3.RealVal(0)]) == a)
print("queries", n, "wall", round(time.time() - t0, 2))
