import sys, time, z3
sys.path.insert(0, '/repo')
from astsmt import *
from ioflo.aid import checking

def ref16(bs):
    crc = z3.BitVecVal(0xffff, 16)
    for b in bs:
        crc = crc ^ (z3.ZeroExt(8, b) << 8)
        for _ in range(8):
            crc = z3.If((crc & 0x8000) != 0, (crc << 1) ^ 0x1021, crc << 1)
    return crc ^ 0xffff

import struct
class FakeStruct:
    pass
N = int(sys.argv[1])
bs = [z3.BitVec("b%d" % i, 8) for i in range(N)]
I = Interp(checking.__dict__)
# struct.pack("!H", crc) not supported: patch by evaluating body until return -> intercept
import types
src = inspect.getsource(checking.crc16).replace('return struct.pack("!H",crc )', 'return crc')
ns = dict(checking.__dict__); exec(src, ns)
import linecache
# need source for inspect: write temp
open('/root/probe/e2/_crc16.py','w').write(src)
import importlib.util
spec = importlib.util.spec_from_file_location("_crc16", "/root/probe/e2/_crc16.py"); m = importlib.util.module_from_spec(spec); m.struct = struct; spec.loader.exec_module(m)
t = time.time()
out = I.call(m.crc16, [[z3.ZeroExt(24, b) for b in bs]])
print("translate", time.time() - t, out.sort())
s = z3.Solver()
s.add(z3.Extract(15, 0, out) != ref16(bs))
t = time.time(); print(s.check(), time.time() - t)
