import collections.abc, sys, io
from symx import *
from crosshair.core import realize
from ioflo.aid import consoling
console = consoling.getConsole(verbosity=0)
from ioflo.base import logging as L, storing, housing
from ioflo.base.globaling import *
RULES = [ONCE, ALWAYS, UPDATE, CHANGE]
K = int(sys.argv[2]) if len(sys.argv) > 2 else 4
def h(sym):
    housing.House.Clear(); housing.ClearRegistries()
    store = storing.Store(name="s", stamp=0.0)
    sh = store.create("a.b").update(value=0)
    rule = RULES[realize(sym.int("rule", 0, 3))]
    log = L.Log(name="lg", store=store, kind='text', rule=rule)
    log.addLoggee("v", sh)
    log.file = io.StringIO()
    log.prepare()
    hdr = log.file.getvalue()
    stamp = 0
    recs_expected = []      # model
    first = True; last_logged = None; dirty = False
    val = 0
    for k in range(K):
        op = realize(sym.int("op%d" % k, 0, 3))
        if op == 0:                      # advance time
            stamp += 1; store.changeStamp(float(stamp))
        elif op == 1:                    # write same value
            sh.update(value=val); dirty = True
        elif op == 2:                    # write different value
            val += 1; sh.update(value=val); dirty = True
        else:                            # run logger
            log()
            if rule == ONCE: do = first
            elif rule == ALWAYS: do = True
            elif rule == UPDATE: do = first or dirty
            else: do = first or (val != last_logged)
            if do: recs_expected.append((stamp, val)); last_logged = val
            first = False; dirty = False
    text = log.file.getvalue()[len(hdr):]
    got = [tuple(line.split("\t")) for line in text.splitlines()]
    exp = [(str(float(s)), str(v)) for s, v in recs_expected]
    return got == exp
print(explore(h, budget_s=float(sys.argv[1]) if len(sys.argv) > 1 else 60))
