import sys
from symx import *
from crosshair.core import realize
from ioflo.aio.http import serving, httping, clienting
class Inc: timeout = 1.0
MSG = (b"POST /a/b?x=1 HTTP/1.1\r\nHost: x\r\nTransfer-Encoding: chunked\r\n\r\n"
       b"3\r\nabc\r\n2\r\nde\r\n0\r\nT: v\r\n\r\n" b"GET /next")
def parse_all(pieces):
    r = serving.Requestant(msg=bytearray(), incomer=Inc())
    for p in pieces:
        r.msg.extend(p)
        if r.parser: r.parse()
    return (r.method, r.path, r.query, dict(r.headers), bytes(r.body), dict(r.trails or {}), bytes(r.msg), r.ended, r.errored)
WHOLE = None
def h(sym):
    global WHOLE
    n = len(MSG)
    i = realize(sym.int("i", 0, n)); j = realize(sym.int("j", 0, n))
    sym.assume(i <= j)
    with NoTracing():
        if WHOLE is None: WHOLE = parse_all([MSG])
        got = parse_all([MSG[:i], MSG[i:j], MSG[j:]])
    return got == WHOLE
print(len(MSG)); print(explore(h, budget_s=float(sys.argv[1]) if len(sys.argv) > 1 else 60))
