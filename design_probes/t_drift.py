import z3, time, sys
F = z3.Float64(); RNE = z3.RNE()
K = int(sys.argv[1]); m = int(sys.argv[2])
P = z3.FP("P", F)
s = z3.Solver(); s.set("timeout", int(sys.argv[3]) * 1000 if len(sys.argv) > 3 else 120000)
lo, hi = z3.FPVal(2.0**-7, F), z3.FPVal(16.0, F)
s.add(z3.fpGEQ(P, lo), z3.fpLEQ(P, hi))
p = z3.fpMul(RNE, z3.FPVal(float(m), F), P)
s.add(z3.fpToReal(p) == m * z3.fpToReal(P))     # p is exactly m*P
stamp = z3.FPVal(0.0, F); retime = z3.FPVal(0.0, F)
dev = []
for n in range(K):
    run = z3.Not(z3.fpGT(retime, stamp))
    ideal = (n % m == 0)
    dev.append(run != z3.BoolVal(ideal))
    retime = z3.If(run, z3.fpAdd(RNE, retime, p), retime)
    stamp = z3.fpAdd(RNE, stamp, P)
s.add(z3.Or(dev))
t = time.time(); r = s.check(); print(r, round(time.time() - t, 1))
if str(r) == 'sat':
    mdl = s.model(); print(mdl[P], float(eval(str(mdl.eval(z3.fpToReal(P))).replace('?', ''))) if False else mdl.eval(P))
