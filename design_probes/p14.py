import collections.abc
import sys, os, tempfile, signal
from ioflo.aid import consoling
console = consoling.getConsole(verbosity=0)
from ioflo.base import building
d = tempfile.mkdtemp(); fn = os.path.join(d, "c.flo")
open(fn, "w").write("""house h
  framer m be active first a
    frame a in b
    frame b in c
    frame c in b
""")
signal.alarm(5)
try:
    print(building.Builder(fileName=fn).build())
except BaseException as e:
    print("EXC", type(e), e)
