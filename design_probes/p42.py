import sys
from symx import *
from ioflo.aid import timing
from ioflo.base import excepting
class Clock:
    def __init__(self, sym): self.sym = sym; self.i = 0; self.now = None
    def time(self):
        v = self.sym.int("t%d" % self.i, 0, 1000); self.i += 1; self.now = v; return v
    def sleep(self, x): pass
K = int(sys.argv[2]) if len(sys.argv) > 2 else 3
def h(sym):
    clk = Clock(sym)
    old = timing.time
    timing.time = clk
    try:
        retro = sym.bool("retro")
        dur = sym.int("dur", 0, 50)
        tm = timing.MonoTimer(duration=dur, retro=retro)
        last_el = 0
        prev_now = clk.now
        for k in range(K):
            op = sym.int("op%d" % k, 0, 3)
            s0, e0 = tm.start, tm.stop
            try:
                if op == 0:
                    el = tm.elapsed
                    now = clk.now
                    if now < prev_now and not retro: return False   # should have raised
                    if el < 0: return False
                    if retro and el < last_el: return False
                    last_el = el
                elif op == 1:
                    ex = tm.expired
                    if ex != (tm.latest >= tm.stop): return False
                elif op == 2:
                    st = tm.stop   # before update shifts
                    r = tm.repeat()
                    last_el = 0
                else:
                    x = sym.int("x%d" % k, -20, 20)
                    tm.extend(x)
                prev_now = clk.now
            except excepting.TimerRetroError:
                if retro: return False
                if not (clk.now < prev_now): return False
                return True
        return True
    finally:
        timing.time = old
print(explore(h, budget_s=float(sys.argv[1]) if len(sys.argv) > 1 else 60))
