import sys, time, z3
sys.path.insert(0, '/repo')
import astsmt
from astsmt import *
from ioflo.aid import vectoring as V
NV = int(sys.argv[1]); CB = int(sys.argv[2])   # vertices, coordinate bits
W = int(sys.argv[3]) if len(sys.argv) > 3 else 24
astsmt.DEFAULT_BV = W
def coord(n): return z3.SignExt(W - CB, z3.BitVec(n, CB))
vs = [(coord("x%d" % i), coord("y%d" % i)) for i in range(NV)]
p = (coord("px"), coord("py"))
I = Interp(V.__dict__)
t = time.time()
w = I.call(V.wind, [p, vs])
ins_t = I.call(V.inside, [p, vs, True])
ins_f = I.call(V.inside, [p, vs, False])
side = I.call(V.sideOnly, [p, vs])
print("translate", round(time.time() - t, 2))
# oracle for triangle (NV==3): orientation based
def orient(a, b, c): return (b[0]-a[0])*(c[1]-a[1]) - (b[1]-a[1])*(c[0]-a[0])
def mn(a, b): return z3.If(a < b, a, b)
def mx(a, b): return z3.If(a > b, a, b)
def onseg(q, a, b):
    return z3.And(orient(a, b, q) == 0, mn(a[0], b[0]) <= q[0], q[0] <= mx(a[0], b[0]), mn(a[1], b[1]) <= q[1], q[1] <= mx(a[1], b[1]))
assert NV == 3
on = z3.Or([onseg(p, vs[i], vs[(i+1) % 3]) for i in range(3)])
d = [orient(vs[i], vs[(i+1) % 3], p) for i in range(3)]
inn = z3.And(z3.Not(on), z3.Or(z3.And(d[0] > 0, d[1] > 0, d[2] > 0), z3.And(d[0] < 0, d[1] < 0, d[2] < 0)))
nondeg = orient(vs[0], vs[1], vs[2]) != 0
spec = z3.And((w != 0) == inn, ins_t == z3.Or(inn, on), ins_f == inn, side == on)
s = z3.Solver(); s.add(nondeg, z3.Not(spec))
s.set("timeout", 90000); t = time.time(); r = s.check(); print(r, round(time.time() - t, 2), flush=True)
if r == z3.sat: print(s.model())
