import sys
from symx import *
from ioflo.base.needing import Need
OPS = ['==', '<', '<=', '>=', '>', '!=', '=~']
def h(sym):
    op = OPS[sym.int("op", 0, 6)]
    mode = sym.int("mode", 0, 1)
    if mode == 0:
        s, g, t = sym.int("s", -10**9, 10**9), sym.int("g", -10**9, 10**9), sym.int("t", -10**9, 10**9)
    else:
        s, g, t = sym.f64("s"), sym.f64("g"), sym.f64("t")
        sym.assume(s == s and g == g and t == t)   # no NaN
        sym.assume(abs(s) < 1e300 and abs(g) < 1e300 and abs(t) < 1e300)
    r = Need.Check(s, op, g, t)
    at = (t if t >= 0 else -t) if mode == 0 else (t if t >= 0.0 else -t)
    if op == '==': exp = (g - at <= s) and (s <= g + at)
    elif op == '!=': exp = not ((g - at <= s) and (s <= g + at))
    elif op == '<': exp = s < g
    elif op == '<=': exp = s <= g
    elif op == '>=': exp = s >= g
    elif op == '>': exp = s > g
    else: exp = False
    return bool(r) == bool(exp)
print(explore(h, budget_s=float(sys.argv[1]) if len(sys.argv) > 1 else 60))
