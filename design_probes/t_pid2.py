import z3, time
F = z3.Float64(); RNE = z3.RNE()
v = {n: z3.FP(n, F) for n in "gff rsp gpe e gde er gie es ovmin ovmax esmin esmax ae b0 b1".split()}
def pymax(a, b):  # python: max(a, b) -> a unless b > a
    return z3.If(z3.fpGT(b, a), b, a)
def pymin(a, b):  # min(a, b) -> a unless b < a
    return z3.If(z3.fpLT(b, a), b, a)
mul = lambda a, b: z3.fpMul(RNE, a, b); add = lambda a, b: z3.fpAdd(RNE, a, b)
es1 = z3.FP("h_es1", F)
es2 = pymin(v['esmax'], pymax(v['esmin'], es1))
out = z3.FP("h_out", F)
out2 = pymin(v['ovmax'], pymax(v['ovmin'], out))
fin = lambda x: z3.And(z3.Not(z3.fpIsNaN(x)), z3.Not(z3.fpIsInf(x)))
s = z3.Solver(); s.set("timeout", 120000)
s.add(fin(v['ovmin']), fin(v['ovmax']), z3.fpLEQ(v['ovmin'], v['ovmax']), fin(v['esmin']), fin(v['esmax']), z3.fpLEQ(v['esmin'], v['esmax']))
s.add(z3.Not(z3.And(z3.fpLEQ(v['ovmin'], out2), z3.fpLEQ(out2, v['ovmax']), z3.fpLEQ(v['esmin'], es2), z3.fpLEQ(es2, v['esmax']))))
t = time.time(); print(s.check(), round(time.time() - t, 2))
